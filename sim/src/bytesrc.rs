//! The byte-source world (C19): `<Piecewise<T> as Arbitrary>::arbitrary` reading a
//! simulator-owned byte string that can end at any byte and be corrupted at any bit.
//! Fault enumeration: for every seeded base encoding, EOF at every offset and every
//! single-bit flip in the header; every decoded function is then driven through
//! direct evaluation, the stateful evaluator and evaluate_v.

use crate::cursor::{self, Client, ClientKind, CursorScn, Ev, Judge, RunResult};
use crate::engine::*;
use crate::funcs::{FuncSpec, Post, Source};
use crate::pieces::*;
use crate::rng::{Digest, Rng};
use arbitrary::{Arbitrary, Unstructured};
use piecewise_polynomial::*;
use serde_json::{json, Map, Value};

/// A query of the post-decode drive, resolved against the decoded breakpoints.
#[derive(Clone, Copy, Debug, PartialEq)]
pub enum Move {
    AtEnd(usize),
    Below(usize),
    Above(usize),
    Mid(usize),
    Value(f64),
}

#[derive(Clone, Debug)]
pub struct ByteScn {
    /// Poly0..Poly8 or PolyN (the piece types that implement Arbitrary)
    pub kind: Kind,
    /// decode through `arbitrary_take_rest` instead of `arbitrary`
    pub take_rest: bool,
    /// 0 = a library piece type (`kind`); 1 = the recursive user type `Curve`; 2 = the zero-sized `Zero`
    pub user: u8,
    pub bytes: Vec<u8>,
    /// header length of the intended encoding (flags + end bytes + terminator); faults enumerate inside it
    pub header_len: usize,
    pub moves: Vec<Move>,
}

// ---------------------------------------------------------------------------
// Reference model of the wire format `arbitrary` 1.4 imposes on Vec<f64>
// ---------------------------------------------------------------------------

/// `(continue-flag byte with bit 0 set, 8 little-endian bytes)*`, then a flag byte with bit 0
/// clear (or the end of input); reads past the end are zero-filled.
fn model_parse_ends(bytes: &[u8]) -> Vec<f64> {
    let mut pos = 0usize;
    let mut ends = Vec::new();
    loop {
        let flag = if pos < bytes.len() { bytes[pos] } else { 0 };
        pos += 1;
        if flag & 1 == 0 {
            break;
        }
        let mut b = [0u8; 8];
        for (k, slot) in b.iter_mut().enumerate() {
            if pos + k < bytes.len() {
                *slot = bytes[pos + k];
            }
        }
        pos += 8;
        ends.push(f64::from_bits(u64::from_le_bytes(b)));
    }
    ends
}

/// What the property demands for a given byte string: `None` = must fail, `Some(ends)` = must
/// succeed with exactly these breakpoints (sorted).
fn model_expected(bytes: &[u8]) -> Option<Vec<f64>> {
    let mut ends = model_parse_ends(bytes);
    if ends.is_empty() || !ends.iter().all(|x| x.is_normal()) {
        return None;
    }
    ends.sort_by(|a, b| a.partial_cmp(b).unwrap());
    Some(ends)
}

pub fn encode_ends(ends: &[f64], rng: &mut Rng) -> Vec<u8> {
    let mut out = Vec::with_capacity(ends.len() * 9 + 1);
    for &e in ends {
        out.push((rng.next_u64() as u8) | 1);
        out.extend_from_slice(&e.to_bits().to_le_bytes());
    }
    out.push((rng.next_u64() as u8) & !1);
    out
}

// ---------------------------------------------------------------------------
// Execution
// ---------------------------------------------------------------------------

fn decode<T: for<'a> Arbitrary<'a>>(bytes: &[u8], take_rest: bool) -> Result<Result<Piecewise<T>, String>, String> {
    guard(|| {
        if take_rest {
            <Piecewise<T> as Arbitrary>::arbitrary_take_rest(Unstructured::new(bytes)).map_err(|e| format!("{e:?}"))
        } else {
            let mut u = Unstructured::new(bytes);
            <Piecewise<T> as Arbitrary>::arbitrary(&mut u).map_err(|e| format!("{e:?}"))
        }
    })
}

fn resolve(mv: Move, ends: &[f64]) -> f64 {
    let n = ends.len();
    let x = match mv {
        Move::AtEnd(i) => ends[i % n],
        Move::Below(i) => ends[i % n].next_down(),
        Move::Above(i) => ends[i % n].next_up(),
        Move::Mid(i) => {
            let j = i % n;
            let hi = ends[j];
            let lo = if j > 0 { ends[j - 1] } else { hi - hi.abs() * 0.5 - 1.0 };
            lo * 0.5 + hi * 0.5
        }
        Move::Value(x) => x,
    };
    if x.is_nan() {
        0.0
    } else {
        x
    }
}

/// User-defined piece types (the impl under test is generic): a RECURSIVE one — `derive(Arbitrary)`
/// threads a recursion depth through `size_hint`, which the impl of `Piecewise<T>` must not reset — and a
/// ZERO-SIZED one.
#[derive(Debug, Clone, Arbitrary)]
pub enum Curve {
    Leaf(Poly1),
    Nested(Piecewise<Curve>),
}

impl Evaluate for Curve {
    fn evaluate(&self, x: f64) -> f64 {
        match self {
            Curve::Leaf(p) => p.evaluate(x),
            Curve::Nested(f) => {
                if f.segments.is_empty() {
                    0.0
                } else {
                    f.evaluate(x)
                }
            }
        }
    }
}

#[derive(Debug, Clone, Copy, Arbitrary)]
pub struct Zero;

impl Evaluate for Zero {
    fn evaluate(&self, _x: f64) -> f64 {
        0.0
    }
}

fn check_typed<T>(scn: &ByteScn, cov: &mut Cov, prog: &Progress) -> Result<u64, (String, String)>
where
    T: Evaluate + for<'a> Arbitrary<'a> + 'static,
{
    prog.tick();
    // what a fuzz harness asks first; must return (and, for a recursive user type, terminate)
    let _ = guard(|| <Piecewise<T> as Arbitrary>::size_hint(0)).map_err(|p| ("panic".to_string(), format!("<Piecewise<_> as Arbitrary>::size_hint panicked: {p}")))?;
    cov.events += 1;
    let want = model_expected(&scn.bytes);
    let got = match decode::<T>(&scn.bytes, scn.take_rest) {
        Ok(r) => r,
        Err(p) => return Err(("panic".into(), format!("Piecewise::<{}>::arbitrary panicked on {} bytes: {p}", scn.kind.name(), scn.bytes.len()))),
    };
    let mut dig = Digest::new();
    let f = match got {
        Err(_) => {
            cov.hit("decode_err");
            if want.is_some() {
                // The property allows failing; rejecting an input whose encoded breakpoints are all
                // normal is counted (so that "always Err" is visible in the evidence), not judged.
                cov.hit("model_says_ok_but_err");
            }
            return Ok(0);
        }
        Ok(f) => f,
    };
    cov.hit("decode_ok");
    // The statement itself, independent of the wire-format model:
    let n = f.segments.len();
    if n == 0 {
        return Err(("malformed".into(), "arbitrary returned a function with no segments".into()));
    }
    for (i, s) in f.segments.iter().enumerate() {
        if !s.end.is_normal() {
            return Err(("malformed".into(), format!("arbitrary returned breakpoint {i} = {:e}, which is not a normal number", s.end)));
        }
        if i > 0 && s.end < f.segments[i - 1].end {
            return Err((
                "malformed".into(),
                format!("arbitrary returned decreasing breakpoints: end[{}]={:e} > end[{i}]={:e}", i - 1, f.segments[i - 1].end, s.end),
            ));
        }
    }
    // Against the model of the wire format: exactly the encoded breakpoints, none lost or invented.
    match &want {
        None => {
            // unreachable on a correct tree unless the model of the dependency's wire format is wrong:
            // the returned function is well-formed (checked above), so this is not the property's business.
            cov.hit("model_says_err_but_ok_wellformed");
        }
        Some(w) => {
            let got_ends: Vec<u64> = f.segments.iter().map(|s| s.end.to_bits()).collect();
            let want_ends: Vec<u64> = w.iter().map(|x| x.to_bits()).collect();
            if got_ends != want_ends {
                cov.hit("model_ends_differ_but_wellformed");
            }
        }
    }
    for s in &f.segments {
        dig.f(s.end);
    }
    if n == 1 {
        cov.hit("probe_decoded_single_segment");
    }
    if f.segments.windows(2).any(|w| w[0].end == w[1].end) {
        cov.hit("probe_decoded_duplicate_ends");
    }
    // Drive 1: the decoded function itself through all three paths (pieces may hold NaN
    // coefficients: answers are compared as NaN-class-equal bits).
    let ends: Vec<f64> = f.segments.iter().map(|s| s.end).collect();
    let xs: Vec<f64> = scn.moves.iter().map(|&m| resolve(m, &ends)).collect();
    {
        struct Direct<'a, T>(&'a Piecewise<T>);
        impl<T: Evaluate> Direct<'_, T> {
            fn direct(&self, x: f64) -> f64 {
                self.0.evaluate(x)
            }
            fn stream<'b>(&'b self, feed: SimFeed) -> impl Iterator<Item = f64> + 'b {
                self.0.evaluate_v(feed)
            }
        }
        let t = Direct(&f);
        let mut evaluator = match guard(|| PiecewiseEvaluator::new(&f.segments)) {
            Ok(e) => e,
            Err(p) => return Err(("panic".into(), format!("PiecewiseEvaluator::new panicked on a decoded function: {p}"))),
        };
        let mut ev = |x: f64| evaluator.evaluate(x);
        for &x in &xs {
            prog.tick();
            cov.events += 1;
            let d = guard(|| t.direct(x)).map_err(|p| ("panic".to_string(), format!("Piecewise::evaluate({x:e}) panicked on a decoded function: {p}")))?;
            let r = guard(|| ev(x)).map_err(|p| ("panic".to_string(), format!("PiecewiseEvaluator::evaluate({x:e}) panicked on a decoded function: {p}")))?;
            if !same(d, r) {
                return Err((
                    "mismatch".into(),
                    format!("decoded function: evaluator answered {r:e} at x={x:e}, direct evaluation {d:e}"),
                ));
            }
            dig.f(d);
        }
        // evaluate_v over the sorted arguments (non-decreasing): must equal pointwise evaluation
        let mut sorted = xs.clone();
        sorted.sort_by(|a, b| a.partial_cmp(b).unwrap());
        let feed = SimFeed::new();
        for &x in &sorted {
            feed.push(x);
        }
        let mut it = guard(|| t.stream(feed.clone())).map_err(|p| ("panic".to_string(), format!("evaluate_v panicked on a decoded function: {p}")))?;
        for &x in &sorted {
            let r = guard(|| it.next()).map_err(|p| ("panic".to_string(), format!("evaluate_v next() panicked at x={x:e} on a decoded function: {p}")))?;
            let d = guard(|| t.direct(x)).map_err(|p| ("panic".to_string(), format!("Piecewise::evaluate({x:e}) panicked: {p}")))?;
            match r {
                Some(r) if same(r, d) => {}
                other => {
                    return Err((
                        "mismatch".into(),
                        format!("decoded function: evaluate_v yielded {other:?} at x={x:e}, direct evaluation {d:e}"),
                    ))
                }
            }
        }
    }
    // Drive 2: same breakpoints with tag pieces Poly0(i+1), so that "identical segment choice"
    // is observable whatever the decoded coefficients are; through the cursor world's executor.
    let tag = FuncSpec {
        kind: Kind::P(0),
        ends: ends.clone(),
        coefs: (0..n).map(|i| vec![(i + 1) as f64]).collect(),
        source: Source::Direct,
        other: None,
        ops: vec![],
        post: Post::None,
    };
    let mut events = Vec::with_capacity(xs.len() * 3);
    for &x in &xs {
        events.push(Ev::Query { c: 0, x });
        events.push(Ev::Feed { c: 1, x });
        events.push(Ev::Pull { c: 1 });
    }
    let cs = CursorScn {
        funcs: vec![tag],
        clients: vec![Client { func: 0, kind: ClientKind::Eval, from: 0 }, Client { func: 0, kind: ClientKind::Stream, from: 0 }],
        events,
        batches: vec![],
    };
    match cursor::execute(&cs, Judge { evals: true, streams: true, build: true, battery: false }, cov, prog) {
        RunResult::Clean { digest } => dig.word(digest),
        RunResult::Discard => {}
        RunResult::Violation { class, detail } => {
            return Err((class, format!("decoded breakpoints {:?} with tag pieces: {detail}", ends)));
        }
    }
    Ok(dig.0)
}

pub fn check_one(scn: &ByteScn, cov: &mut Cov, prog: &Progress) -> Result<u64, (String, String)> {
    match scn.user {
        1 => {
            cov.hit("user_piece_type_recursive");
            return check_typed::<Curve>(scn, cov, prog);
        }
        2 => {
            cov.hit("user_piece_type_zero_sized");
            return check_typed::<Zero>(scn, cov, prog);
        }
        _ => {}
    }
    match scn.kind {
        Kind::P(0) => check_typed::<Poly0>(scn, cov, prog),
        Kind::P(1) => check_typed::<Poly1>(scn, cov, prog),
        Kind::P(2) => check_typed::<Poly2>(scn, cov, prog),
        Kind::P(3) => check_typed::<Poly3>(scn, cov, prog),
        Kind::P(4) => check_typed::<Poly4>(scn, cov, prog),
        Kind::P(5) => check_typed::<Poly5>(scn, cov, prog),
        Kind::P(6) => check_typed::<Poly6>(scn, cov, prog),
        Kind::P(7) => check_typed::<Poly7>(scn, cov, prog),
        Kind::P(8) => check_typed::<Poly8>(scn, cov, prog),
        Kind::N => check_typed::<PolyN>(scn, cov, prog),
        _ => Ok(0),
    }
}

// ---------------------------------------------------------------------------
// Generation and fault enumeration
// ---------------------------------------------------------------------------

fn gen_end(rng: &mut Rng, class: u64) -> f64 {
    match class {
        0 => rng.range(-5, 5).max(1) as f64 * if rng.chance(1, 2) { 1.0 } else { -1.0 },
        1 => rng.uniform(-1e3, 1e3),
        2 => {
            // random normal bit pattern
            loop {
                let x = f64::from_bits(rng.next_u64());
                if x.is_normal() {
                    break x;
                }
            }
        }
        3 => *rng.pick(&[f64::MIN_POSITIVE, -f64::MIN_POSITIVE, f64::MAX, -f64::MAX, f64::MIN_POSITIVE.next_up()]),
        // the inadmissible classes
        4 => *rng.pick(&[0.0, -0.0]),
        5 => *rng.pick(&[5e-324, -5e-324, f64::MIN_POSITIVE.next_down(), 1e-310]),
        6 => *rng.pick(&[f64::INFINITY, f64::NEG_INFINITY]),
        _ => {
            if rng.chance(1, 2) {
                f64::from_bits(*rng.pick(&[0x7ff8_0000_0000_0000u64, 0xfff8_0000_0000_0000, 0x7ff0_0000_0000_0001, 0x7fff_ffff_ffff_ffff]))
            } else {
                // NaN with a random sign and payload
                f64::from_bits(0x7ff0_0000_0000_0000 | (rng.next_u64() & 0x800f_ffff_ffff_ffff) | 1)
            }
        }
    }
}

fn gen_scn(rng: &mut Rng, _tier: Tier) -> ByteScn {
    let kind = match rng.below(6) {
        0 | 1 => Kind::P(0),
        2 => Kind::N,
        _ => Kind::P(rng.below(9) as u8),
    };
    let take_rest = rng.chance(1, 4);
    let user: u8 = match rng.below(25) {
        0 => 1,
        1 => 2,
        _ => 0,
    };
    let moves: Vec<Move> = (0..rng.usize_in(1, 6))
        .map(|_| {
            let i = rng.usize_in(0, 15);
            match rng.below(6) {
                0 => Move::AtEnd(i),
                1 => Move::Below(i),
                2 => Move::Above(i),
                3 => Move::Mid(i),
                4 => Move::Value(*rng.pick(&[f64::INFINITY, f64::NEG_INFINITY, 0.0, -0.0, 1e308, -1e308])),
                _ => Move::Value(rng.uniform(-10.0, 10.0)),
            }
        })
        .collect();
    if rng.chance(1, 10) {
        // wholly random string
        let len = rng.usize_in(0, 80);
        let bytes: Vec<u8> = (0..len).map(|_| rng.next_u64() as u8).collect();
        let header_len = bytes.len().min(40);
        return ByteScn { kind, take_rest, user, bytes, header_len, moves };
    }
    let n = match rng.below(20) {
        0 => 0,
        1..=5 => 1,
        6..=10 => 2,
        11..=14 => 3,
        15..=17 => 4,
        18 => rng.usize_in(5, 12),
        _ => match rng.below(10) {
            0..=5 => rng.usize_in(5, 12),
            6..=8 => rng.usize_in(13, 40),
            _ => {
                if rng.chance(1, 6) {
                    if rng.chance(1, 3) {
                        // long lists (caps, chunked paths, index types): fault positions sampled, see `LONG_INPUT`
                        *rng.pick(&[513usize, 600, 1025, 1100, 1536, 2000, 4000])
                    } else {
                        *rng.pick(&[64usize, 100, 255, 256, 300])
                    }
                } else {
                    rng.usize_in(13, 40)
                }
            }
        },
    };
    // scenario: all admissible (60%), or one/several inadmissible ends mixed in
    let bad_rate = *rng.pick(&[0u64, 0, 0, 1, 3]);
    let shape = rng.below(4);
    let mut ends: Vec<f64> = (0..n)
        .map(|_| {
            if rng.below(10) < bad_rate {
                let c = 4 + rng.below(4);
                gen_end(rng, c)
            } else {
                let c = rng.below(4);
                gen_end(rng, c)
            }
        })
        .collect();
    match shape {
        0 => ends.sort_by(|a, b| b.total_cmp(a)), // descending (total order: NaNs may be among them)
        1 => {
            // duplicates
            if n >= 2 {
                let v = ends[0];
                let k = rng.usize_in(1, n - 1);
                ends[k] = v;
            }
        }
        2 => {
            // equal magnitudes of both signs (comparators written on |x| or on bit patterns)
            if n >= 2 {
                let k = rng.usize_in(1, n - 1);
                ends[k] = -ends[0];
                if n >= 3 && rng.chance(1, 2) {
                    let j = rng.usize_in(1, n - 1);
                    ends[j] = ends[0];
                }
            }
        }
        _ => {}
    }
    let mut bytes = encode_ends(&ends, rng);
    let header_len = bytes.len();
    // piece bytes: complete, partial or absent
    let per_piece = match kind {
        Kind::N => 1 + 9 * rng.usize_in(0, 3),
        k => 8 * k.nc(),
    };
    let piece_bytes = match rng.below(4) {
        0 => 0,
        1 => rng.usize_in(0, per_piece * n.max(1)),
        _ => per_piece * n + rng.usize_in(0, 4),
    };
    for _ in 0..piece_bytes {
        bytes.push(rng.next_u64() as u8);
    }
    // leftover input after the pieces: whatever consumes it (an extended `arbitrary_take_rest`, extra
    // fields) sees encodings of numbers related to the breakpoints rather than noise
    if piece_bytes >= per_piece * n && rng.chance(1, 3) {
        // start exactly where the pieces end
        bytes.truncate(header_len + per_piece * n);
        let last = ends.last().copied().unwrap_or(1.0);
        let first = ends.first().copied().unwrap_or(1.0);
        for _ in 0..rng.usize_in(1, 3) {
            if rng.chance(1, 2) {
                bytes.push((rng.next_u64() as u8) | 1);
            }
            let v = match rng.below(10) {
                0 => last.abs(),
                1 => -last,
                2 => first.abs(),
                3 => f64::MAX,
                4 => 1e308,
                5 => 2.5 * f64::MIN_POSITIVE,
                6 => last.abs() + 2.5 * f64::MIN_POSITIVE,
                7 => 0.0,
                8 => f64::INFINITY,
                _ => f64::from_bits(rng.next_u64()),
            };
            bytes.extend_from_slice(&v.to_bits().to_le_bytes());
        }
    }
    ByteScn { kind, take_rest, user, bytes, header_len, moves }
}

/// Inputs longer than this are "long": their fault positions are sampled, not enumerated.
const LONG_INPUT: usize = 3000;

/// Truncation offsets to try: every offset, or for long inputs the first and last 40 and 200 evenly spaced.
fn trunc_offsets(len: usize) -> Vec<usize> {
    if len <= LONG_INPUT {
        return (0..len).collect();
    }
    let mut v: Vec<usize> = (0..40).chain(len - 40..len).collect();
    v.extend((1..200).map(|k| k * len / 200));
    v.sort_unstable();
    v.dedup();
    v
}

/// Header bytes whose bits are flipped: all of them, or for long inputs the first and last 27 (3 records).
fn flip_bytes(header: usize) -> Vec<usize> {
    if header <= LONG_INPUT {
        return (0..header).collect();
    }
    (0..27).chain(header - 27..header).collect()
}

/// sub = 0: base; then truncations; then single-bit flips in the header.
fn variant(base: &ByteScn, sub: u64) -> ByteScn {
    if sub == 0 {
        return base.clone();
    }
    let tr = trunc_offsets(base.bytes.len());
    let mut s = base.clone();
    if (sub as usize) <= tr.len() {
        s.bytes.truncate(tr[sub as usize - 1]);
        s.header_len = s.header_len.min(s.bytes.len());
        return s;
    }
    let fb = flip_bytes(base.header_len.min(base.bytes.len()));
    let bit = sub as usize - tr.len() - 1;
    if let Some(&byte) = fb.get(bit / 8) {
        s.bytes[byte] ^= 1 << (bit % 8);
    }
    s
}

fn variant_count(base: &ByteScn) -> u64 {
    1 + trunc_offsets(base.bytes.len()).len() as u64 + 8 * flip_bytes(base.header_len.min(base.bytes.len())).len() as u64
}

fn shrink(scn: &ByteScn) -> Vec<ByteScn> {
    let mut out = Vec::new();
    // fewer drive moves
    if scn.moves.len() > 1 {
        for i in 0..scn.moves.len() {
            let mut s = scn.clone();
            s.moves.remove(i);
            out.push(s);
        }
    }
    // truncate the byte string
    let n = scn.bytes.len();
    let mut cut = n / 2;
    while cut >= 1 {
        let mut s = scn.clone();
        s.bytes.truncate(n - cut);
        s.header_len = s.header_len.min(s.bytes.len());
        out.push(s);
        cut /= 2;
    }
    // drop one (flag, end) record from the header
    let mut pos = 0;
    while pos + 9 <= scn.bytes.len() && scn.bytes[pos] & 1 == 1 {
        let mut s = scn.clone();
        s.bytes.drain(pos..pos + 9);
        s.header_len = s.header_len.saturating_sub(9);
        out.push(s);
        pos += 9;
    }
    // zero trailing piece bytes
    if scn.bytes.len() > scn.header_len && scn.bytes[scn.header_len..].iter().any(|&b| b != 0) {
        let mut s = scn.clone();
        for b in s.bytes[scn.header_len..].iter_mut() {
            *b = 0;
        }
        out.push(s);
    }
    if scn.kind != Kind::P(0) {
        let mut s = scn.clone();
        s.kind = Kind::P(0);
        out.push(s);
    }
    out
}

fn to_json(scn: &ByteScn) -> Value {
    let ends = model_parse_ends(&scn.bytes);
    json!({
        "world": "byte-source",
        "piece_type": scn.kind.name(),
        "entry_point": if scn.take_rest { "arbitrary_take_rest" } else { "arbitrary" },
        "user_piece_type": match scn.user { 1 => "Curve (recursive enum deriving Arbitrary)", 2 => "Zero (zero-sized)", _ => "none" },
        "bytes_hex": scn.bytes.iter().map(|b| format!("{b:02x}")).collect::<String>(),
        "header_len": scn.header_len,
        "decoded_header_for_readers": fj_list(&ends),
        "drive": scn.moves.iter().map(|m| match *m {
            Move::AtEnd(i) => json!({"at_end": i}),
            Move::Below(i) => json!({"one_ulp_below_end": i}),
            Move::Above(i) => json!({"one_ulp_above_end": i}),
            Move::Mid(i) => json!({"inside_segment": i}),
            Move::Value(x) => json!({"value": fj(x)}),
        }).collect::<Vec<_>>(),
    })
}

fn from_json(v: &Value) -> Result<ByteScn, String> {
    let kind = Kind::parse(jstr(v, "piece_type")?)?;
    if !matches!(kind, Kind::P(_) | Kind::N) {
        return Err("piece type must be Poly0..Poly8 or PolyN".into());
    }
    let take_rest = v.get("entry_point").and_then(|e| e.as_str()) == Some("arbitrary_take_rest");
    let hex = jstr(v, "bytes_hex")?;
    if hex.len() % 2 != 0 {
        return Err("odd hex length".into());
    }
    let bytes = (0..hex.len() / 2)
        .map(|i| u8::from_str_radix(&hex[2 * i..2 * i + 2], 16).map_err(|e| e.to_string()))
        .collect::<Result<Vec<u8>, String>>()?;
    let header_len = jusize(v, "header_len")?.min(bytes.len());
    let moves = v
        .get("drive")
        .and_then(|d| d.as_array())
        .ok_or("missing drive")?
        .iter()
        .map(|m| {
            let o = m.as_object().ok_or("bad move")?;
            let (k, val) = o.iter().next().ok_or("bad move")?;
            let idx = || val.as_u64().map(|x| x as usize).ok_or_else(|| "bad index".to_string());
            Ok(match k.as_str() {
                "at_end" => Move::AtEnd(idx()?),
                "one_ulp_below_end" => Move::Below(idx()?),
                "one_ulp_above_end" => Move::Above(idx()?),
                "inside_segment" => Move::Mid(idx()?),
                "value" => Move::Value(jf(val)?),
                x => return Err(format!("bad move {x}")),
            })
        })
        .collect::<Result<Vec<_>, String>>()?;
    let user = match v.get("user_piece_type").and_then(|u| u.as_str()) {
        Some(s) if s.starts_with("Curve") => 1,
        Some(s) if s.starts_with("Zero") => 2,
        _ => 0,
    };
    Ok(ByteScn { kind, take_rest, user, bytes, header_len, moves })
}

pub struct C19;

impl World for C19 {
    type Scn = ByteScn;
    fn prop(&self) -> &'static str {
        "C19"
    }
    fn level(&self) -> &'static str {
        "fault_enumeration"
    }
    fn default_runs(&self, tier: Tier) -> u64 {
        match tier {
            Tier::Quick => 80_000,
            Tier::Thorough => 2_000_000,
        }
    }
    fn generate(&self, rng: &mut Rng, tier: Tier) -> ByteScn {
        gen_scn(rng, tier)
    }
    fn explore(&self, base: &ByteScn, _tier: Tier, cov: &mut Cov, prog: &Progress) -> Outcome<ByteScn> {
        let total = variant_count(base);
        let mut dig = Digest::new();
        for sub in 0..total {
            prog.set_sub(sub);
            let scn = variant(base, sub);
            if sub == 0 {
                cov.hit("base_strings");
                if base.bytes.len() > LONG_INPUT {
                    cov.hit("long_inputs");
                }
            } else if (sub as usize) <= trunc_offsets(base.bytes.len()).len() {
                cov.hit("fault_eof_at_offset");
                let cut = scn.bytes.len();
                if cut < base.header_len && cut % 9 != 0 {
                    cov.hit("probe_eof_inside_an_end");
                }
                if cut >= base.header_len {
                    cov.hit("probe_eof_while_generating_pieces");
                }
            } else {
                cov.hit("fault_single_bit_flip_in_header");
            }
            match check_one(&scn, cov, prog) {
                Ok(d) => {
                    dig.word(d);
                    if cov.enabled {
                        // distinct = distinct (piece type, byte string)
                        let mut h = Digest::new();
                        h.word(scn.kind.index() as u64);
                        h.word(crate::rng::fnv1a(&scn.bytes));
                        if model_parse_ends(&scn.bytes).len() >= 2 {
                            cov.note_distinct(h.0);
                        }
                    }
                }
                Err((class, detail)) => {
                    return Outcome {
                        digest: 1,
                        violation: Some(Violation { class, detail, scn }),
                    }
                }
            }
        }
        Outcome { digest: dig.0, violation: None }
    }
    fn variant(&self, base: &ByteScn, sub: u64, _tier: Tier) -> ByteScn {
        variant(base, sub)
    }
    fn variant_count(&self, base: &ByteScn, _tier: Tier) -> u64 {
        variant_count(base)
    }
    fn check(&self, scn: &ByteScn, cov: &mut Cov, prog: &Progress) -> Option<(String, String)> {
        check_one(scn, cov, prog).err()
    }
    fn shrink(&self, scn: &ByteScn) -> Vec<ByteScn> {
        shrink(scn)
    }
    fn to_json(&self, scn: &ByteScn) -> Value {
        to_json(scn)
    }
    fn from_json(&self, v: &Value) -> Result<ByteScn, String> {
        from_json(v)
    }
    fn signature(&self, class: &str, scn: &ByteScn) -> String {
        let ends = model_parse_ends(&scn.bytes);
        let what = if ends.is_empty() {
            "empty"
        } else if ends.iter().any(|x| x.is_nan()) {
            "nan-end"
        } else if ends.iter().any(|x| x.is_infinite()) {
            "inf-end"
        } else if ends.iter().any(|x| !x.is_normal()) {
            "zero-or-subnormal-end"
        } else {
            "normal-ends"
        };
        format!("{class}/{what}")
    }
    fn rule(&self) -> String {
        "Each evaluation is one seeded base byte string for Piecewise<T>::arbitrary (T in Poly0..Poly8, PolyN; entry points arbitrary and arbitrary_take_rest): an encoding of 0-12 breakpoints drawn from 8 classes (small integers, random, random normal bit patterns, normal extremes, +-0, subnormals, +-inf, NaN patterns; descending / duplicated orders) followed by complete, partial or no piece bytes, or (10%) a wholly random string; plus ALL its faulted variants: EOF at every offset and every single-bit flip in the header. Each decode must return Err or a function with >= 1 segment, all breakpoints normal and non-decreasing, must succeed when the model of the wire format says the encoded breakpoints are all normal, and every returned function is driven through Piecewise::evaluate, PiecewiseEvaluator and evaluate_v (as decoded, and with tag pieces on the same breakpoints). distinct = distinct (piece type, byte string) decoded whose header encodes >= 2 breakpoints.".into()
    }
    fn assumptions(&self) -> Vec<String> {
        vec![
            "arbitrary 1.4.2 (pinned by /repo's Cargo.lock) encodes Vec<f64> as (flag byte with bit 0 set, 8 LE bytes)* then a flag with bit 0 clear, zero-filling past the end; the harness's model of that format is used only for the 'must succeed' side and for counters, never to reject a well-formed result".into(),
            "fault positions (EOF offsets, header bit flips) are enumerated exhaustively per base string; base strings are seeded samples".into(),
        ]
    }
    fn real_vs_stub(&self) -> Value {
        json!({
            "real": ["<Piecewise<T> as Arbitrary>::arbitrary from /repo", "arbitrary::Unstructured and the derived Arbitrary of Poly0/Poly3/Poly8/PolyN", "PiecewiseEvaluator, Piecewise::evaluate, evaluate_v on every decoded function"],
            "simulated": ["the byte source: structured encodings, EOF at every offset, single-bit flips"],
            "reference_model": ["20-line parser of arbitrary's Vec<f64> wire format + the well-formedness predicate"],
            "not_present_in_target": ["threads", "clocks/timers", "network", "disk"]
        })
    }
    fn extra_coverage(&self, cov: &Cov, out: &mut Map<String, Value>) {
        out.insert("fault_positions_enumerated_exhaustively_per_base".into(), json!(format!("yes for inputs of up to {LONG_INPUT} bytes; longer inputs (counters.long_inputs): first/last 40 and 200 evenly spaced EOF offsets, bit flips in the first and last 27 header bytes")));
        let g = |k: &str| cov.counters.get(k).copied().unwrap_or(0);
        out.insert("decodes_executed".into(), json!(g("decode_ok") + g("decode_err")));
    }
}

//! The cursor world: immutable piecewise functions and a scheduler-controlled
//! population of stateful clients on them (`PiecewiseEvaluator` instances and
//! `evaluate_v` streams), with direct evaluation as a third observer.
//!
//! Serves C03 (evaluators), C12 (streams), C16 (NaN/inf faults at every position)
//! and the second half of C19 (decoded functions driven through all three paths).

use crate::engine::*;
use crate::funcs::{build_func, gen_func, FuncSpec};
use crate::pieces::*;
use crate::rng::{Digest, Rng};
use serde_json::{json, Map, Value};
use std::collections::VecDeque;

#[derive(Clone, Copy, Debug, PartialEq, Eq)]
pub enum ClientKind {
    Eval,
    Stream,
}

#[derive(Clone, Debug)]
pub struct Client {
    pub func: usize,
    pub kind: ClientKind,
    /// evaluators only: created on `segments[from..]` of the function's storage (0 = the whole function)
    pub from: usize,
}

#[derive(Clone, Copy, Debug, PartialEq)]
pub enum Ev {
    /// Ask evaluator `c` (and direct evaluation) for the value at `x`.
    Query { c: usize, x: f64 },
    /// Make `x` available on the input iterator of stream `c` (the library has not seen it yet).
    Feed { c: usize, x: f64 },
    /// Call `next()` on stream `c`.
    Pull { c: usize },
    /// Drop client `c` and create a fresh one on the same function.
    Restart { c: usize },
    /// Drop every client of function `f`, change the function IN PLACE (same storage, same addresses),
    /// and re-create those clients. `shift_ends`: every `end += by`; otherwise `translate(by)`.
    Mutate { f: usize, shift_ends: bool, by: f64 },
}

impl Ev {
    /// The client an event addresses (`usize::MAX` for events that address a function).
    fn client(&self) -> usize {
        match *self {
            Ev::Query { c, .. } | Ev::Feed { c, .. } | Ev::Pull { c } | Ev::Restart { c } => c,
            Ev::Mutate { .. } => usize::MAX,
        }
    }
    fn with_client(&self, c: usize) -> Ev {
        match *self {
            Ev::Query { x, .. } => Ev::Query { c, x },
            Ev::Feed { x, .. } => Ev::Feed { c, x },
            Ev::Pull { .. } => Ev::Pull { c },
            Ev::Restart { .. } => Ev::Restart { c },
            e @ Ev::Mutate { .. } => e,
        }
    }
    fn arg(&self) -> Option<f64> {
        match *self {
            Ev::Query { x, .. } | Ev::Feed { x, .. } => Some(x),
            _ => None,
        }
    }
    fn with_arg(&self, x: f64) -> Ev {
        match *self {
            Ev::Query { c, .. } => Ev::Query { c, x },
            Ev::Feed { c, .. } => Ev::Feed { c, x },
            e => e,
        }
    }
}

/// Which answers are judged (panics are always violations).
#[derive(Clone, Copy, Debug, PartialEq, Eq)]
pub struct Judge {
    pub evals: bool,
    pub streams: bool,
    /// a panic while the library builds a function source (linear, spline, +, -, integral, ...) is a
    /// violation (C16) rather than a discarded run (C03/C12, whose statements say nothing about it)
    pub build: bool,
    /// also run the operation battery on every function's direct form (C16's monitored half)
    pub battery: bool,
}

const CHAIN_HEADS: [&str; 5] = ["next_x_k", "nth_k", "skip_k", "by_ref_take_k_for_each", "step_by_k"];
const CHAIN_TAILS: [&str; 5] = ["fold", "for_each", "last", "count", "for_loop"];

/// How a whole argument sequence is consumed from a fresh `evaluate_v` stream in one go
/// (the consumer methods a caller may use instead of plain `next()`).
#[derive(Clone, Copy, Debug, PartialEq, Eq)]
pub enum BatchMode {
    Collect,
    Fold,
    Count,
    Last,
    /// `nth(k)` then collect the rest
    Nth(usize),
    /// `size_hint()` first, then collect
    SizeHint,
    /// input handed over as a `Vec<f64>` (not the simulator's feed), collected
    VecInput,
    /// `skip(k)` then collect
    Skip(usize),
    /// `step_by(k)` (k >= 1) then collect
    StepBy(usize),
    /// `peekable()`, alternating `peek()` and `next()`
    Peekable,
    /// `by_ref().take(k)` collected, then the rest of the same iterator collected
    ByRefTake(usize),
    /// input is an UNBOUNDED iterator (`xs.cycle()`, size_hint = (usize::MAX, None)); the first
    /// `xs.len()` results are taken
    CycleInput,
    /// a two-stage consumption of one stream: a *head* that advances it part of the way
    /// (0: `next()` k times; 1: `nth(k)`; 2: the adaptor `skip(k)`; 3: `by_ref().take(k).for_each`;
    /// 4: the adaptor `step_by(k)`), then a *tail* that finishes it through another method
    /// (0: `fold`; 1: `for_each`; 2: `last`; 3: `count`; 4: a plain `for` loop), over the simulator's
    /// feed or over a `Vec` (exact size hint). What a hand-written iterator with its own
    /// `fold`/`nth`/`last`/`count` gets wrong when its cursor is already past the start.
    Chain { head: u8, k: usize, tail: u8, vec_input: bool },
}

#[derive(Clone, Debug)]
pub struct Batch {
    pub func: usize,
    pub mode: BatchMode,
    pub xs: Vec<f64>,
}

#[derive(Clone, Debug)]
pub struct CursorScn {
    pub funcs: Vec<FuncSpec>,
    pub clients: Vec<Client>,
    pub events: Vec<Ev>,
    /// whole-sequence consumptions on fresh streams, executed after the events (C12)
    pub batches: Vec<Batch>,
}

pub const NAN_VARIANTS: [u64; 4] = [
    0x7ff8_0000_0000_0000, // f64::NAN
    0xfff8_0000_0000_0000, // -NAN
    0x7ff0_0000_0000_0001, // signalling pattern
    0x7ffc_0000_dead_beef, // quiet with payload
];

pub enum RunResult {
    Clean { digest: u64 },
    Discard,
    Violation { class: String, detail: String },
}

enum ClientState<'a> {
    Eval(Box<dyn FnMut(f64) -> f64 + 'a>),
    Stream {
        it: Box<dyn Iterator<Item = f64> + 'a>,
        feed: SimFeed,
        expect: VecDeque<f64>,
        runmax: Option<f64>,
        poisoned: bool,
    },
    Dead,
}

fn is_well_formed(t: &dyn Target) -> bool {
    let n = t.len();
    if n == 0 {
        return false;
    }
    let mut prev = t.end(0);
    if prev.is_nan() {
        return false;
    }
    for i in 1..n {
        let e = t.end(i);
        if e.is_nan() || e < prev {
            return false;
        }
        prev = e;
    }
    true
}

/// A live client together with the reference its answers are compared with: the function itself, or,
/// for an evaluator on a sub-slice, an independent copy of that tail. `reference` is a raw pointer into a
/// `Box` owned either by the run's function table or by `_tail` (heap addresses are stable).
struct Cl {
    state: ClientState<'static>,
    reference: *const dyn Target,
    ref_ends: Vec<f64>,
    _tail: Option<Box<dyn Target>>,
}

fn ends_of(t: &dyn Target) -> Vec<f64> {
    (0..t.len()).map(|i| t.end(i)).collect()
}

/// SAFETY (for the two `'static` extensions below): a client's closures/iterators borrow the heap
/// allocation behind one `Box<dyn Target>` of the run's function table. `execute` declares the table
/// before the client vector, so clients are dropped first on every exit path; the only place a function
/// is touched while the table lives is the `Mutate` event, which first replaces every client of that
/// function by `Dead`.
fn make_client(t: *const dyn Target, c: &Client) -> Result<Cl, (String, String)> {
    let tref: &'static dyn Target = unsafe { &*t };
    let from = if c.kind == ClientKind::Eval { c.from.min(tref.len().saturating_sub(1)) } else { 0 };
    let state = new_client(tref, c.kind, from)?;
    if from > 0 {
        let tail = guard(|| tref.tail_clone(from)).map_err(|p| ("panic".to_string(), format!("cloning a tail of the function panicked: {p}")))?;
        let reference: *const dyn Target = &*tail;
        Ok(Cl { state, reference, ref_ends: ends_of(&*tail), _tail: Some(tail) })
    } else {
        Ok(Cl { state, reference: t, ref_ends: ends_of(tref), _tail: None })
    }
}

fn new_client<'a>(t: &'a dyn Target, kind: ClientKind, from: usize) -> Result<ClientState<'a>, (String, String)> {
    match kind {
        ClientKind::Eval => match guard(|| if from == 0 { t.evaluator() } else { t.evaluator_from(from) }) {
            Ok(e) => Ok(ClientState::Eval(e)),
            Err(p) => Err(("panic".into(), format!("PiecewiseEvaluator::new panicked: {p}"))),
        },
        ClientKind::Stream => {
            let feed = SimFeed::new();
            let f2 = feed.clone();
            match guard(move || t.stream(f2)) {
                Ok(it) => {
                    if feed.pulls() != 0 || feed.exhausted_pulls() != 0 {
                        return Err((
                            "laziness".into(),
                            "evaluate_v polled its input iterator while being constructed (before any next())".into(),
                        ));
                    }
                    Ok(ClientState::Stream {
                        it,
                        feed,
                        expect: VecDeque::new(),
                        runmax: None,
                        poisoned: false,
                    })
                }
                Err(p) => Err(("panic".into(), format!("evaluate_v panicked on construction: {p}"))),
            }
        }
    }
}

/// Execute one explicit scenario literally against the real library.
pub fn execute(scn: &CursorScn, judge: Judge, cov: &mut Cov, prog: &Progress) -> RunResult {
    // Build the functions (every constructor/operator call runs under the crash monitor).
    let mut funcs: Vec<Box<dyn Target>> = Vec::with_capacity(scn.funcs.len());
    for (fi, spec) in scn.funcs.iter().enumerate() {
        prog.tick();
        match build_func(spec, cov) {
            Ok(t) => {
                if !is_well_formed(&*t) {
                    cov.hit("discard_ill_formed_library_product");
                    return RunResult::Discard;
                }
                funcs.push(t);
            }
            Err(p) => {
                if !judge.build {
                    cov.hit("discard_function_source_panicked");
                    return RunResult::Discard;
                }
                return RunResult::Violation {
                    class: "panic".into(),
                    detail: format!("building function {fi} ({}) panicked: {p}", spec.describe()),
                };
            }
        }
    }
    if judge.battery {
        for (fi, spec) in scn.funcs.iter().enumerate() {
            prog.tick();
            let x = spec.ends.first().copied().filter(|e| e.is_finite()).unwrap_or(1.0) + 0.5;
            match crate::funcs::ops_battery(spec, x, 0.75) {
                Ok(n) => cov.add("ops_battery_operations", n),
                Err(p) => {
                    return RunResult::Violation {
                        class: "panic".into(),
                        detail: format!(
                            "operation battery on function {fi} ({} with {} finite well-formed segments; piece/segment/piecewise clone, ==, abs_diff_eq, relative_eq, translate, *, *=, -, +, derivative, indefinite, integral, integral_iter) panicked: {p}",
                            spec.kind.name(),
                            spec.ends.len()
                        ),
                    }
                }
            }
        }
    }
    let mut dig = Digest::new();
    // NB: declared after `funcs`, hence dropped before it (see `make_client`).
    let mut clients: Vec<Cl> = Vec::with_capacity(scn.clients.len());
    for c in &scn.clients {
        if c.func >= funcs.len() {
            return RunResult::Discard;
        }
        if c.from > 0 {
            cov.hit("clients_on_a_sub_slice");
        }
        match make_client(&*funcs[c.func] as *const dyn Target, c) {
            Ok(s) => clients.push(s),
            Err((class, detail)) => return RunResult::Violation { class, detail },
        }
    }
    let mut prev_x: Vec<Option<f64>> = vec![None; clients.len()];
    let mut nan_seen: Vec<bool> = vec![false; clients.len()];

    for (step, ev) in scn.events.iter().enumerate() {
        prog.tick();
        cov.events += 1;
        if let Ev::Mutate { f, shift_ends, by } = *ev {
            if f >= funcs.len() || !by.is_finite() {
                continue;
            }
            // no client of this function may outlive the change
            for (ci, c) in scn.clients.iter().enumerate() {
                if c.func == f {
                    clients[ci].state = ClientState::Dead;
                    clients[ci]._tail = None;
                }
            }
            let how = if shift_ends { Mutation::ShiftEnds } else { Mutation::Translate };
            let fm = &mut funcs[f];
            if let Err(p) = guard(|| fm.mutate(how, by)) {
                if !judge.build {
                    return RunResult::Discard;
                }
                return RunResult::Violation { class: "panic".into(), detail: format!("step {step}: changing function {f} in place ({how:?} by {by:e}) panicked: {p}") };
            }
            cov.hit(if shift_ends { "fault_function_ends_shifted_in_place" } else { "fault_function_translated_in_place" });
            if !is_well_formed(&*funcs[f]) {
                return RunResult::Discard;
            }
            for (ci, c) in scn.clients.iter().enumerate() {
                if c.func == f {
                    match make_client(&*funcs[f] as *const dyn Target, c) {
                        Ok(s) => clients[ci] = s,
                        Err((class, detail)) => return RunResult::Violation { class, detail: format!("step {step}: {detail}") },
                    }
                    prev_x[ci] = None;
                    nan_seen[ci] = false;
                }
            }
            continue;
        }
        let c = ev.client();
        if c >= clients.len() {
            continue;
        }
        let fi = scn.clients[c].func;
        let Cl { state, reference, ref_ends, .. } = &mut clients[c];
        // SAFETY: `reference` points into a Box that outlives the client (see `make_client`).
        let t: &dyn Target = unsafe { &**reference };
        let e: &[f64] = ref_ends;
        match *ev {
            Ev::Mutate { .. } => {}
            Ev::Query { x, .. } => {
                let ClientState::Eval(evf) = state else { continue };
                let r = match guard(|| evf(x)) {
                    Ok(r) => r,
                    Err(p) => {
                        // A user-defined piece may reject an argument by panicking. If direct evaluation of
                        // the same argument panics too, the panic is the piece's, not the library's: the caller
                        // caught it and keeps its evaluator, whose later answers must still be right.
                        if guard(|| t.direct(x)).is_err() {
                            cov.hit("fault_user_piece_panicked_inside_evaluator");
                            prev_x[c] = Some(x);
                            continue;
                        }
                        *state = ClientState::Dead;
                        return RunResult::Violation {
                            class: "panic".into(),
                            detail: format!("step {step}: PiecewiseEvaluator::evaluate({x:e}) on client {c} panicked: {p}"),
                        };
                    }
                };
                let d = match guard(|| t.direct(x)) {
                    Ok(d) => d,
                    Err(p) => {
                        return RunResult::Violation {
                            class: if t.kind() == Kind::U { "mismatch".into() } else { "panic".into() },
                            detail: format!("step {step}: Piecewise::evaluate({x:e}) panicked ({p}) although the evaluator on client {c} answered {r:e}"),
                        }
                    }
                };
                dig.word(step as u64);
                dig.f(r);
                dig.f(d);
                if x.is_nan() {
                    // The answer to a NaN query is unconstrained; only the return is required.
                    cov.hit("fault_nan_query");
                    nan_seen[c] = true;
                    prev_x[c] = Some(x);
                    continue;
                }
                probe_query(cov, e, prev_x[c], x, nan_seen[c]);
                prev_x[c] = Some(x);
                let si = select(e, x);
                if t.kind() != Kind::U {
                    let m = t.piece(si, x);
                    if !same(m, d) {
                        cov.hit("model_vs_direct_disagreement");
                    }
                }
                if judge.evals && !same(r, d) {
                    let which = (0..e.len()).filter(|&i| guard(|| t.piece(i, x)).map_or(false, |v| same(v, r))).map(|i| i.to_string()).collect::<Vec<_>>().join(",");
                    return RunResult::Violation {
                        class: "mismatch".into(),
                        detail: format!(
                            "step {step}: evaluator client {c} on function {fi} answered {r:e} for x={x:e} (bits {:#018x}); direct evaluation gives {d:e} (segment {si} by the half-open rule; evaluator's answer matches segment(s) [{which}]){}",
                            x.to_bits(),
                            if nan_seen[c] { "; a NaN query preceded it on this evaluator" } else { "" }
                        ),
                    };
                }
            }
            Ev::Feed { x, .. } => {
                if let ClientState::Stream { feed, expect, .. } = state {
                    feed.push(x);
                    expect.push_back(x);
                    cov.hit("stream_feeds");
                }
            }
            Ev::Pull { .. } => {
                let ClientState::Stream { it, feed, expect, runmax, poisoned } = state else { continue };
                let Some(x) = expect.pop_front() else {
                    // Nothing queued: pulling would end the caller's iterator, after which the
                    // property says nothing. Treated as a no-op (also keeps shrinking sound).
                    cov.hit("noop_pull_on_empty_feed");
                    continue;
                };
                if t.kind() == Kind::U {
                    // streams over a panicking user piece are only driven, never judged
                    let _ = guard(|| it.next());
                    continue;
                }
                let before = feed.pulls();
                let r = match guard(|| it.next()) {
                    Ok(r) => r,
                    Err(p) => {
                        if t.kind() == Kind::U {
                            // the user piece rejected the argument (or the stream chose a piece that did):
                            // nothing is asserted about this stream any more
                            cov.hit("fault_user_piece_panicked_inside_stream");
                            *poisoned = true;
                            continue;
                        }
                        return RunResult::Violation {
                            class: "panic".into(),
                            detail: format!("step {step}: evaluate_v stream {c} panicked on next() with input {x:e}: {p}"),
                        };
                    }
                };
                let pulled = feed.pulls() - before;
                cov.hit("stream_pulls");
                if judge.streams && (pulled != 1 || feed.exhausted_pulls() != 0) {
                    return RunResult::Violation {
                        class: "laziness".into(),
                        detail: format!("step {step}: one next() on evaluate_v stream {c} pulled {pulled} inputs (and polled an empty input {} times); it must pull exactly one", feed.exhausted_pulls()),
                    };
                }
                let Some(r) = r else {
                    if judge.streams {
                        return RunResult::Violation {
                            class: "laziness".into(),
                            detail: format!("step {step}: evaluate_v stream {c} returned None although input {x:e} was available"),
                        };
                    }
                    continue;
                };
                dig.word(step as u64);
                dig.f(r);
                if x.is_nan() {
                    cov.hit("fault_nan_feed");
                    *poisoned = true;
                    continue;
                }
                if *poisoned {
                    // After a NaN input the property (non-NaN sequences) says nothing about this stream.
                    continue;
                }
                let monotone_so_far = runmax.map_or(true, |m| x >= m);
                let rm = match *runmax {
                    Some(m) if m > x => m,
                    _ => x,
                };
                *runmax = Some(rm);
                if monotone_so_far {
                    cov.hit("stream_pull_monotone");
                } else {
                    cov.hit("stream_pull_after_decrease");
                }
                if x == f64::INFINITY || x == f64::NEG_INFINITY {
                    cov.hit("stream_inf_input");
                }
                let d_rm = match guard(|| t.direct(rm)) {
                    Ok(d) => d,
                    Err(p) => {
                        return RunResult::Violation {
                            class: "panic".into(),
                            detail: format!("step {step}: Piecewise::evaluate({rm:e}) panicked: {p}"),
                        }
                    }
                };
                let si = select(e, rm);
                let model_ok = same(t.piece(si, rm), d_rm);
                if !model_ok {
                    cov.hit("model_vs_direct_disagreement");
                }
                if !judge.streams {
                    continue;
                }
                if monotone_so_far {
                    // First sentence of C12: exactly the bits of pointwise evaluation.
                    if !same(r, d_rm) {
                        return RunResult::Violation {
                            class: "mismatch".into(),
                            detail: format!(
                                "step {step}: evaluate_v stream {c} on function {fi} yielded {r:e} for x={x:e} (non-decreasing so far); pointwise evaluation gives {d_rm:e} (segment {si})"
                            ),
                        };
                    }
                } else if model_ok {
                    // Second sentence: the segment direct evaluation selects for the running maximum.
                    let want = t.piece(si, x);
                    if !same(r, want) {
                        return RunResult::Violation {
                            class: "mismatch".into(),
                            detail: format!(
                                "step {step}: evaluate_v stream {c} on function {fi} yielded {r:e} for x={x:e} with running maximum {rm:e}; the segment selected for the running maximum is {si}, whose value at x is {want:e}"
                            ),
                        };
                    }
                }
            }
            Ev::Restart { .. } => {
                cov.hit(match scn.clients[c].kind {
                    ClientKind::Eval => "fault_restart_evaluator",
                    ClientKind::Stream => "fault_cancel_restart_stream",
                });
                *state = ClientState::Dead;
                match make_client(&*funcs[fi] as *const dyn Target, &scn.clients[c]) {
                    Ok(s) => clients[c] = s,
                    Err((class, detail)) => return RunResult::Violation { class, detail: format!("step {step}: {detail}") },
                }
                prev_x[c] = None;
                nan_seen[c] = false;
            }
        }
    }
    // Whole-sequence consumptions on fresh streams.
    for (bi, b) in scn.batches.iter().enumerate() {
        if b.func >= funcs.len() || b.xs.iter().any(|x| x.is_nan()) || funcs[b.func].kind() == Kind::U {
            continue;
        }
        prog.tick();
        cov.events += 1;
        let t = &*funcs[b.func];
        let e_owned = ends_of(t);
        let e = &e_owned;
        // expected sequence: pointwise while non-decreasing, running-maximum segment otherwise
        let want: Vec<Option<f64>> = match guard(|| {
            let mut want: Vec<Option<f64>> = Vec::with_capacity(b.xs.len());
            let mut rm: Option<f64> = None;
            for &x in &b.xs {
                let mono = rm.map_or(true, |m| x >= m);
                let m = match rm {
                    Some(m) if m > x => m,
                    _ => x,
                };
                rm = Some(m);
                let si = select(e, m);
                let model_ok = same(t.piece(si, m), t.direct(m));
                want.push(if mono {
                    Some(t.direct(x))
                } else if model_ok {
                    Some(t.piece(si, x))
                } else {
                    None
                });
            }
            want
        }) {
            Ok(w) => w,
            Err(p) => {
                return RunResult::Violation {
                    class: "panic".into(),
                    detail: format!("batch {bi}: Piecewise::evaluate panicked: {p}"),
                }
            }
        };
        let got = match guard(|| t.stream_batch(b.mode, &b.xs)) {
            Ok(g) => g,
            Err(p) => {
                return RunResult::Violation {
                    class: "panic".into(),
                    detail: format!("batch {bi}: evaluate_v consumed with {:?} over {} arguments panicked: {p}", b.mode, b.xs.len()),
                }
            }
        };
        cov.hit("stream_batches");
        if matches!(b.mode, BatchMode::Chain { .. }) {
            cov.hit("stream_batches_two_stage_chain");
        }
        if !judge.streams {
            continue;
        }
        if got.pulled != b.xs.len() as u64 && !matches!(b.mode, BatchMode::VecInput | BatchMode::CycleInput | BatchMode::Chain { vec_input: true, .. }) {
            return RunResult::Violation {
                class: "laziness".into(),
                detail: format!("batch {bi}: consuming evaluate_v with {:?} pulled {} of the {} arguments", b.mode, got.pulled, b.xs.len()),
            };
        }
        if let Some(c) = got.count {
            if c != got.count_due.unwrap_or(b.xs.len()) {
                return RunResult::Violation {
                    class: "mismatch".into(),
                    detail: format!("batch {bi}: evaluate_v(..) consumed with {:?}: count() = {c} where {} was due ({} arguments)", b.mode, got.count_due.unwrap_or(b.xs.len()), b.xs.len()),
                };
            }
        }
        if let Some((lo, hi)) = got.size_hint {
            // the Iterator contract, not C12's statement: counted, not judged
            if lo > b.xs.len() || hi.map_or(false, |h| h < b.xs.len()) {
                cov.hit("note_size_hint_excludes_actual_length");
            }
        }
        for (idx, val) in &got.values {
            dig.f(*val);
            if let Some(Some(w)) = want.get(*idx) {
                if !same(*w, *val) {
                    return RunResult::Violation {
                        class: "mismatch".into(),
                        detail: format!(
                            "batch {bi}: evaluate_v consumed with {:?} yielded {val:e} as result #{idx} (argument {:e}); expected {w:e}",
                            b.mode, b.xs[*idx]
                        ),
                    };
                }
            }
        }
        if got.values.len() != got.expected_values {
            return RunResult::Violation {
                class: "mismatch".into(),
                detail: format!("batch {bi}: evaluate_v consumed with {:?} produced {} results where {} were due", b.mode, got.values.len(), got.expected_values),
            };
        }
    }
    RunResult::Clean { digest: dig.0 }
}

/// Reach probes on evaluator queries (bookkeeping only).
fn probe_query(cov: &mut Cov, ends: &[f64], prev: Option<f64>, x: f64, nan_before: bool) {
    if !cov.enabled {
        return;
    }
    let n = ends.len();
    let si = select(ends, x);
    if n == 1 {
        cov.hit("probe_single_segment_query");
    }
    if ends.iter().any(|&e| e == x) {
        cov.hit("probe_query_equals_an_end");
        let dup = ends.iter().filter(|&&e| e == x).count();
        if dup >= 2 {
            cov.hit("probe_query_equals_duplicated_end");
        }
    }
    if x.is_infinite() {
        cov.hit("probe_infinite_query");
    }
    match prev {
        None => {
            if x < ends[0] {
                cov.hit("probe_first_query_below_first_end");
            }
            if x == ends[0] {
                cov.hit("probe_first_query_equals_first_end");
            }
        }
        Some(p) if p.is_nan() => {
            cov.hit("probe_query_right_after_nan");
        }
        Some(p) => {
            let pi = select(ends, p);
            if x < p {
                cov.hit("probe_backward_move");
                if pi >= si + 2 {
                    cov.hit("probe_backward_crossing_2plus_segments");
                }
                if ends.iter().any(|&e| e == x) {
                    cov.hit("probe_backward_landing_on_an_end");
                }
                if pi == n - 1 && si == 0 && n >= 3 {
                    cov.hit("probe_last_segment_to_first");
                }
                if nan_before {
                    cov.hit("probe_backward_move_after_nan");
                }
            } else if x > p {
                cov.hit("probe_forward_move");
                if si >= pi + 2 {
                    cov.hit("probe_forward_crossing_2plus_segments");
                }
            } else {
                cov.hit("probe_repeated_query");
            }
        }
    }
}

// ---------------------------------------------------------------------------
// Generation
// ---------------------------------------------------------------------------

const N_MOVES: usize = 17;

pub struct MoveWeights(pub [u32; N_MOVES]);

impl MoveWeights {
    pub fn draw(rng: &mut Rng) -> MoveWeights {
        let mut w = [0u32; N_MOVES];
        let choices = [0u32, 1, 1, 2, 4, 8];
        loop {
            for x in w.iter_mut() {
                *x = *rng.pick(&choices);
            }
            if w.iter().any(|&x| x > 0) {
                break;
            }
        }
        // ±inf and random bit patterns are kept rarer so that runs make progress inside the function.
        w[13] = w[13].min(2);
        w[14] = w[14].min(2);
        MoveWeights(w)
    }
}

fn point_in_segment(rng: &mut Rng, ends: &[f64], j: usize) -> f64 {
    let n = ends.len();
    let mut lo = if j > 0 { ends[j - 1] } else { f64::NEG_INFINITY };
    let mut hi = if j + 1 < n { ends[j] } else { f64::INFINITY };
    if !lo.is_finite() && !hi.is_finite() {
        lo = -1.0;
        hi = 1.0;
    } else if !lo.is_finite() {
        lo = hi - 2.0 - hi.abs() * 0.5;
    } else if !hi.is_finite() {
        hi = lo + 2.0 + lo.abs() * 0.5;
    }
    let x = lo + (hi - lo) * rng.unit();
    if x.is_nan() || x.is_infinite() {
        lo
    } else {
        x
    }
}

/// Draw the next non-NaN argument for a client whose previous argument was `prev`.
pub fn gen_query(rng: &mut Rng, ends: &[f64], prev: Option<f64>, w: &MoveWeights) -> f64 {
    let n = ends.len();
    let p = prev.unwrap_or(ends[0]);
    let ci = select(ends, p);
    let mv = rng.weighted(&w.0);
    let x = match mv {
        0 => p,
        1 => {
            let hi = if ci + 1 < n || p < ends[ci] { ends[ci] } else { f64::INFINITY };
            if hi.is_finite() && p.is_finite() && p < hi {
                p + (hi - p) * rng.unit() * 0.9
            } else if p.is_finite() {
                p + rng.unit()
            } else {
                p
            }
        }
        2 => {
            let lo = if ci > 0 { ends[ci - 1] } else { f64::NEG_INFINITY };
            if lo.is_finite() && p.is_finite() && p > lo {
                p - (p - lo) * rng.unit() * 0.9
            } else if p.is_finite() {
                p - rng.unit()
            } else {
                p
            }
        }
        3 => ends[ci],
        4 => {
            if ci > 0 {
                ends[ci - 1]
            } else {
                ends[0]
            }
        }
        5 => ends[rng.usize_in(0, n - 1)].next_down(),
        6 => ends[rng.usize_in(0, n - 1)].next_up(),
        7 => {
            let k = rng.usize_in(1, 3);
            point_in_segment(rng, ends, (ci + k).min(n - 1))
        }
        8 => {
            let k = rng.usize_in(1, 3);
            point_in_segment(rng, ends, ci.saturating_sub(k))
        }
        9 => point_in_segment(rng, ends, 0),
        10 => point_in_segment(rng, ends, n - 1),
        11 => {
            if rng.chance(1, 2) {
                if rng.chance(1, 2) { -1e300 } else { ends[0] - 1e6 }
            } else if rng.chance(1, 2) {
                1e300
            } else {
                ends[n - 1] + 1e6
            }
        }
        12 => {
            if rng.chance(1, 2) {
                0.0
            } else {
                -0.0
            }
        }
        13 => {
            if rng.chance(1, 2) {
                f64::INFINITY
            } else {
                f64::NEG_INFINITY
            }
        }
        14 => loop {
            let x = f64::from_bits(rng.next_u64());
            if !x.is_nan() {
                break x;
            }
        },
        15 => ends[rng.usize_in(0, n - 1)],
        _ => {
            let j = rng.usize_in(0, n - 1);
            point_in_segment(rng, ends, j)
        }
    };
    if x.is_nan() {
        0.0
    } else {
        x
    }
}

/// Ends the model will see for a spec, without running the library, when that is
/// known statically (Direct sources); otherwise an approximation good enough to steer moves.
fn steering_ends(spec: &FuncSpec) -> Vec<f64> {
    spec.steering_ends()
}

#[derive(Clone, Copy, Debug, PartialEq, Eq)]
pub enum Profile {
    /// evaluators only, NaN-free (C03)
    Evaluators,
    /// streams only, NaN-free (C12)
    Streams,
    /// evaluators and streams; the base history that C16 injects faults into
    Mixed,
}

pub fn gen_scenario(rng: &mut Rng, profile: Profile, tier: Tier) -> CursorScn {
    let mut nfuncs = match rng.below(10) {
        0..=6 => 1,
        7..=8 => 2,
        _ => 3,
    };
    // a crowd: many functions and many live clients at once (tables indexed by client, shared arenas)
    let crowd = rng.chance(1, 50);
    if crowd {
        nfuncs = rng.usize_in(3, 5);
    }
    let allow_long = tier == Tier::Thorough || rng.chance(1, 4);
    // C16 also monitors "no operation panics on well-formed input": its base histories use
    // library-produced function sources far more often.
    let derived_pct = if profile == Profile::Mixed { 55 } else { 30 };
    let mut funcs: Vec<FuncSpec> = (0..nfuncs).map(|_| gen_func(rng, allow_long, derived_pct)).collect();
    // thorough tier only: a handful of functions with about a million segments (index types, bisection
    // depth, recursion): tag pieces, integer ends with occasional duplicates
    if tier == Tier::Thorough && profile != Profile::Mixed && rng.chance(1, 100_000) {
        let n = (1usize << 20) + rng.usize_in(0, 2) - 1;
        let mut x = 0.0f64;
        let dup = rng.chance(1, 2);
        let ends: Vec<f64> = (0..n)
            .map(|i| {
                if !(dup && i % 5 == 3) {
                    x += 1.0;
                }
                x
            })
            .collect();
        funcs[0] = FuncSpec {
            kind: Kind::P(0),
            coefs: (0..n).map(|i| vec![(i + 1) as f64]).collect(),
            ends,
            source: crate::funcs::Source::Direct,
            other: None,
            ops: vec![],
            post: crate::funcs::Post::None,
        };
    }
    let mut steer: Vec<Vec<f64>> = funcs.iter().map(steering_ends).collect();
    // a very long history on a single evaluator (16-bit counters, "every N-th" paths); in the C16
    // profile its fault positions are sampled (see C16_LONG)
    let ultra_drawn = rng.chance(1, if profile == Profile::Mixed { 40_000 } else { 100_000 });
    // Cost bound: direct evaluation is O(segments) per query, so a very long history (or a very long
    // batch) is never combined with a function of more than 300 (very long histories) or 2000 (long batches, 100+-event histories) segments — the product, multiplied by
    // C16's fault variants, would otherwise occupy one worker for the better part of an hour.
    let heavy = funcs.iter().any(|f| f.ends.len() > 2000);
    let ultra = ultra_drawn && !funcs.iter().any(|f| f.ends.len() > 300);
    let nclients = if ultra {
        1
    } else if crowd {
        rng.usize_in(4, 9)
    } else {
        match rng.below(10) {
            0..=4 => 1,
            5..=7 => 2,
            8 => 3,
            _ => 4,
        }
    };
    let mut clients = Vec::new();
    for _ in 0..nclients {
        let func = rng.usize_in(0, nfuncs - 1);
        let kind = match profile {
            Profile::Evaluators => ClientKind::Eval,
            Profile::Streams => ClientKind::Stream,
            Profile::Mixed => {
                if ultra || rng.chance(3, 4) {
                    ClientKind::Eval
                } else {
                    ClientKind::Stream
                }
            }
        };
        // an evaluator may live on a sub-slice of the function's storage
        let flen = steer[func].len();
        let from = if kind == ClientKind::Eval && flen >= 2 && rng.chance(1, 6) { rng.usize_in(1, flen - 1) } else { 0 };
        clients.push(Client { func, kind, from });
    }
    // Per-stream behaviour: monotone (non-decreasing) or arbitrary argument sequences.
    let monotone: Vec<bool> = clients.iter().map(|_| rng.chance(1, 2)).collect();
    let weights: Vec<MoveWeights> = clients.iter().map(|_| MoveWeights::draw(rng)).collect();
    let max_events = match profile {
        Profile::Mixed => 16,
        _ => 64,
    };
    let mut nev = match rng.below(20) {
        0..=2 => rng.usize_in(1, 2),
        3..=9 => rng.usize_in(3, 6),
        10..=15 => rng.usize_in(7, 16),
        _ => rng.usize_in(1, max_events),
    }
    .min(max_events);
    // rare long histories: counters, caches and fast paths that only engage after many queries
    match profile {
        Profile::Mixed => {
            if rng.chance(1, 2000) {
                nev = rng.usize_in(60, 250);
            }
            if ultra {
                nev = rng.usize_in(170_000, 400_000);
            }
        }
        _ => {
            if rng.chance(1, 100) {
                nev = if heavy { rng.usize_in(100, 300) } else { rng.usize_in(100, 1500) };
            }
            // a handful of very long histories (16-bit query counters wrap at 65 536)
            if ultra {
                nev = if profile == Profile::Evaluators { rng.usize_in(170_000, 400_000) } else { rng.usize_in(20_000, 400_000) };
            }
        }
    }
    let restart_rate = if ultra { 0 } else { *rng.pick(&[0u64, 0, 1, 2, 5]) };
    // bursts of the same argument repeated many times
    let burst_rate = *rng.pick(&[0u64, 0, 0, 1, 4]);
    // half of the very long histories are ONE strictly monotone sweep over the function's span
    let mono_step: Option<(f64, f64)> = if ultra && rng.chance(1, 2) {
        let e = &steer[clients[0].func];
        let lo = e[0];
        let hi = e[e.len() - 1];
        let (lo, hi) = if lo.is_finite() && hi.is_finite() && hi > lo { (lo - 1.0, hi + 1.0) } else { (-2.0, 2.0) };
        let step = (hi - lo) / nev as f64;
        if rng.chance(2, 3) {
            Some((hi, -step))
        } else {
            Some((lo, step))
        }
    } else {
        None
    };
    let mut prev: Vec<Option<f64>> = vec![None; clients.len()];
    let mut queued: Vec<usize> = vec![0; clients.len()];
    let mut runmax: Vec<Option<f64>> = vec![None; clients.len()];
    let mut events = Vec::with_capacity(nev + 4);
    // in-place changes of a function between client lifetimes (same storage, same addresses)
    let mutate_rate = if ultra { 0 } else { *rng.pick(&[0u64, 0, 0, 1, 3]) };
    while events.len() < nev {
        let c = rng.usize_in(0, clients.len() - 1);
        if rng.below(40) < mutate_rate {
            let f = clients[c].func;
            let shift_ends = rng.chance(1, 2);
            let by = *rng.pick(&[1.0, -1.0, 0.5, 2.0, -3.0]);
            events.push(Ev::Mutate { f, shift_ends, by });
            if shift_ends {
                for x in steer[f].iter_mut() {
                    *x += by;
                }
            }
            for k in 0..clients.len() {
                if clients[k].func == f {
                    prev[k] = None;
                    queued[k] = 0;
                    runmax[k] = None;
                }
            }
            continue;
        }
        let e = {
            let full = &steer[clients[c].func];
            &full[clients[c].from.min(full.len() - 1)..]
        };
        if rng.below(40) < restart_rate {
            events.push(Ev::Restart { c });
            prev[c] = None;
            queued[c] = 0;
            runmax[c] = None;
            continue;
        }
        match clients[c].kind {
            ClientKind::Eval => {
                let x = match mono_step {
                    Some((start, step)) => {
                        let y = prev[c].map_or(start, |p| p + step);
                        if y.is_finite() && prev[c].map_or(true, |p| y != p) {
                            y
                        } else {
                            gen_query(rng, e, prev[c], &weights[c])
                        }
                    }
                    None => gen_query(rng, e, prev[c], &weights[c]),
                };
                prev[c] = Some(x);
                events.push(Ev::Query { c, x });
                if mono_step.is_some() {
                    continue;
                }
                if profile != Profile::Mixed && rng.below(64) < burst_rate {
                    let k = *rng.pick(&[1usize, 2, 3, 9, 70, 300]);
                    for _ in 0..k {
                        events.push(Ev::Query { c, x });
                    }
                }
                // long strictly monotone drifts (streak counters, "hot segment" pinning, galloping searches)
                if profile != Profile::Mixed && rng.below(64) < burst_rate && x.is_finite() {
                    let k = *rng.pick(&[3usize, 10, 40, 135, 300]);
                    let lo = e[0];
                    let hi = e[e.len() - 1];
                    let span = if lo.is_finite() && hi.is_finite() && hi > lo { hi - lo } else { 4.0 };
                    let step = span / k as f64 * rng.uniform(0.05, 3.0) * if rng.chance(2, 3) { -1.0 } else { 1.0 };
                    let mut y = x;
                    for _ in 0..k {
                        let z = y + step;
                        if !z.is_finite() || z == y {
                            break;
                        }
                        y = z;
                        events.push(Ev::Query { c, x: y });
                    }
                    prev[c] = Some(y);
                }
            }
            ClientKind::Stream => {
                // Feed a burst, then pull some (the scheduler decides how far behind the consumer is).
                let burst = rng.usize_in(1, 3);
                for _ in 0..burst {
                    let mut x = gen_query(rng, e, prev[c], &weights[c]);
                    if monotone[c] {
                        if let Some(m) = runmax[c] {
                            if x < m {
                                // reflect backward moves into forward ones / repeats
                                x = if rng.chance(1, 2) { m } else { gen_forward(rng, e, m) };
                            }
                        }
                    }
                    runmax[c] = Some(match runmax[c] {
                        Some(m) if m > x => m,
                        _ => x,
                    });
                    prev[c] = Some(x);
                    events.push(Ev::Feed { c, x });
                    queued[c] += 1;
                }
                let pulls = rng.usize_in(0, queued[c]);
                for _ in 0..pulls {
                    events.push(Ev::Pull { c });
                    queued[c] -= 1;
                }
            }
        }
    }
    // Drain what is still queued on every stream so that all fed arguments are observed.
    for c in 0..clients.len() {
        if clients[c].kind == ClientKind::Stream && rng.chance(3, 4) {
            for _ in 0..queued[c] {
                events.push(Ev::Pull { c });
            }
        }
    }
    // whole-sequence consumptions (streams profile only)
    let mut batches = Vec::new();
    if profile == Profile::Streams || (profile == Profile::Mixed && rng.chance(1, 4)) {
        let nb = *rng.pick(&[0usize, 0, 1, 1, 2]);
        for _ in 0..nb {
            let func = rng.usize_in(0, nfuncs - 1);
            let e = &steer[func];
            let w = MoveWeights::draw(rng);
            let mono = rng.chance(1, 2);
            let len = match rng.below(20) {
                0 => 0,
                1..=12 => rng.usize_in(1, 6),
                13..=18 => rng.usize_in(7, 24),
                _ => {
                    if rng.chance(1, 60) && !heavy && profile != Profile::Mixed {
                        rng.usize_in(1000, 70_000)
                    } else {
                        rng.usize_in(25, 300)
                    }
                }
            };
            let mut xs: Vec<f64> = Vec::with_capacity(len);
            let mut prev = None;
            let mut rm: Option<f64> = None;
            for _ in 0..len {
                let mut x = gen_query(rng, e, prev, &w);
                if mono {
                    if let Some(m) = rm {
                        if x < m {
                            x = if rng.chance(1, 2) { m } else { gen_forward(rng, e, m) };
                        }
                    }
                }
                rm = Some(match rm {
                    Some(m) if m > x => m,
                    _ => x,
                });
                prev = Some(x);
                xs.push(x);
            }
            let mode = match rng.below(10) {
                8 | 9 => {
                    let head = rng.below(5) as u8;
                    let k = match head {
                        1 => rng.usize_in(0, len.max(1)).min(len.saturating_sub(1)),
                        4 => rng.usize_in(1, 5),
                        _ => rng.usize_in(0, len.max(1)).min(len),
                    };
                    let head = if len == 0 && head == 1 { 0 } else { head };
                    BatchMode::Chain { head, k, tail: rng.below(5) as u8, vec_input: rng.chance(1, 3) }
                }
                0 => BatchMode::Collect,
                1 => BatchMode::Fold,
                2 => BatchMode::Count,
                3 => BatchMode::Last,
                4 => BatchMode::Nth(rng.usize_in(0, len.max(1))),
                5 => match rng.below(4) {
                    0 => BatchMode::Skip(rng.usize_in(0, len.max(1))),
                    1 => BatchMode::StepBy(rng.usize_in(1, 9)),
                    2 => {
                        if rng.chance(1, 2) {
                            BatchMode::Peekable
                        } else {
                            BatchMode::CycleInput
                        }
                    }
                    _ => BatchMode::ByRefTake(rng.usize_in(0, len.max(1))),
                },
                6 => BatchMode::SizeHint,
                _ => BatchMode::VecInput,
            };
            batches.push(Batch { func, mode, xs });
        }
    }
    CursorScn { funcs, clients, events, batches }
}

fn gen_forward(rng: &mut Rng, ends: &[f64], m: f64) -> f64 {
    let n = ends.len();
    let ci = select(ends, m);
    let x = match rng.below(4) {
        0 => ends[ci],
        1 => {
            let k = rng.usize_in(0, 2);
            point_in_segment(rng, ends, (ci + k).min(n - 1))
        }
        2 => m.next_up(),
        _ => {
            if m.is_finite() {
                m + rng.unit()
            } else {
                m
            }
        }
    };
    if x.is_nan() || x < m {
        m
    } else {
        x
    }
}

// ---------------------------------------------------------------------------
// Order type (the distinct-history measure)
// ---------------------------------------------------------------------------

/// Canonical hash of the weak ordering of all end and argument values of a scenario,
/// the tie pattern, and the kinds/positions of events. Two scenarios with the same
/// order type drive the three cursor mechanisms along the same control-flow path.
pub fn order_type(ends_per_func: &[Vec<f64>], scn: &CursorScn) -> u64 {
    let mut vals: Vec<f64> = Vec::new();
    for e in ends_per_func {
        vals.extend(e.iter().copied());
    }
    for ev in &scn.events {
        if let Some(x) = ev.arg() {
            if !x.is_nan() {
                vals.push(x);
            }
        }
    }
    for b in &scn.batches {
        vals.extend(b.xs.iter().copied().filter(|x| !x.is_nan()));
    }
    vals.sort_by(|a, b| a.partial_cmp(b).unwrap());
    vals.dedup_by(|a, b| a == b);
    let rank = |x: f64| -> u64 {
        if x.is_nan() {
            return u64::MAX;
        }
        vals.partition_point(|&v| v < x) as u64
    };
    let mut d = Digest::new();
    for e in ends_per_func {
        d.word(0xE0 + e.len() as u64);
        for &x in e {
            d.word(rank(x));
        }
    }
    for c in &scn.clients {
        d.word(0xC0 + c.func as u64 * 2 + (c.kind == ClientKind::Stream) as u64 + 65536 * c.from as u64);
    }
    for ev in &scn.events {
        match *ev {
            Ev::Query { c, x } => {
                d.word(1 + 8 * c as u64);
                d.word(rank(x));
            }
            Ev::Feed { c, x } => {
                d.word(2 + 8 * c as u64);
                d.word(rank(x));
            }
            Ev::Pull { c } => d.word(3 + 8 * c as u64),
            Ev::Restart { c } => d.word(4 + 8 * c as u64),
            Ev::Mutate { f, shift_ends, .. } => d.word(5 + 8 * f as u64 + 4096 * shift_ends as u64),
        }
    }
    for b in &scn.batches {
        d.word(0xB0 + b.func as u64);
        d.word(match b.mode {
            BatchMode::Collect => 0,
            BatchMode::Fold => 1,
            BatchMode::Count => 2,
            BatchMode::Last => 3,
            BatchMode::Nth(k) => 16 + k as u64,
            BatchMode::SizeHint => 4,
            BatchMode::VecInput => 5,
            BatchMode::Peekable => 6,
            BatchMode::CycleInput => 7,
            BatchMode::Skip(k) => (1 << 20) + k as u64,
            BatchMode::StepBy(k) => (2 << 20) + k as u64,
            BatchMode::ByRefTake(k) => (3 << 20) + k as u64,
            BatchMode::Chain { head, k, tail, vec_input } => (4 << 20) + ((head as u64) << 40) + ((tail as u64) << 44) + ((vec_input as u64) << 48) + k as u64,
        });
        for &x in &b.xs {
            d.word(rank(x));
        }
    }
    d.0
}

fn nontrivial(scn: &CursorScn) -> bool {
    let multi = scn.funcs.iter().any(|f| f.steering_ends().len() >= 2);
    let mut per_client = vec![0usize; scn.clients.len()];
    for ev in &scn.events {
        if matches!(ev, Ev::Query { .. } | Ev::Pull { .. }) {
            per_client[ev.client()] += 1;
        }
    }
    multi && (per_client.iter().any(|&k| k >= 2) || scn.batches.iter().any(|b| b.xs.len() >= 2))
}

// ---------------------------------------------------------------------------
// Small scope: a finite universe of order types in which saturation is measurable
// ---------------------------------------------------------------------------

/// The small scope: one directly built function with 1-4 segments and finite ends, one evaluator,
/// 1-4 finite queries and nothing else. Returns the canonical class (order type) of such a run.
pub fn small_scope_class(scn: &CursorScn) -> Option<u64> {
    if scn.funcs.len() != 1 || scn.clients.len() != 1 || scn.clients[0].kind != ClientKind::Eval || scn.clients[0].from != 0 {
        return None;
    }
    let f = &scn.funcs[0];
    if !f.is_direct() || !f.ops.is_empty() || f.post != crate::funcs::Post::None {
        return None;
    }
    let n = f.ends.len();
    let k = scn.events.len();
    if !(1..=4).contains(&n) || !(1..=4).contains(&k) || f.ends.iter().any(|e| !e.is_finite()) {
        return None;
    }
    let mut qs = Vec::with_capacity(k);
    for ev in &scn.events {
        match *ev {
            Ev::Query { x, .. } if x.is_finite() => qs.push(x),
            _ => return None,
        }
    }
    let mut vals: Vec<f64> = f.ends.iter().copied().chain(qs.iter().copied()).collect();
    vals.sort_by(|a, b| a.partial_cmp(b).unwrap());
    vals.dedup_by(|a, b| a == b);
    let rank = |x: f64| vals.partition_point(|&v| v < x) as u64;
    let mut d = Digest::new();
    d.word(n as u64);
    for &e in &f.ends {
        d.word(rank(e));
    }
    d.word(k as u64);
    for &q in &qs {
        d.word(rank(q));
    }
    Some(d.0)
}

/// Number of order types in the small scope, by enumeration: for n ends with m distinct values
/// (C(n-1,m-1) tie patterns) and k queries, every assignment of the queries to the 2m+1 slots
/// (equal to a distinct end, or inside one of the m+1 open intervals) times the number of weak
/// orderings (Fubini numbers) of the queries sharing an open interval.
pub fn small_scope_universe() -> u64 {
    const FUBINI: [u64; 5] = [1, 1, 3, 13, 75];
    let binom = |a: u64, b: u64| -> u64 { (0..b).fold(1u64, |acc, i| acc * (a - i) / (i + 1)) };
    let mut total = 0u64;
    for n in 1..=4u64 {
        for m in 1..=n {
            let patterns = binom(n - 1, m - 1);
            for k in 1..=4u32 {
                let slots = (2 * m + 1) as usize;
                let mut w = 0u64;
                let mut assign = vec![0usize; k as usize];
                loop {
                    let mut counts = vec![0usize; slots];
                    for &a in &assign {
                        counts[a] += 1;
                    }
                    // even slot indices are the open intervals, odd ones "equal to an end"
                    w += counts.iter().enumerate().filter(|(i, _)| i % 2 == 0).map(|(_, &c)| FUBINI[c]).product::<u64>();
                    let mut i = 0;
                    loop {
                        if i == assign.len() {
                            break;
                        }
                        assign[i] += 1;
                        if assign[i] < slots {
                            break;
                        }
                        assign[i] = 0;
                        i += 1;
                    }
                    if i == assign.len() {
                        break;
                    }
                }
                total += patterns * w;
            }
        }
    }
    total
}

/// A scenario drawn (nearly) uniformly from the small scope.
pub fn gen_small_scope(rng: &mut Rng) -> CursorScn {
    // weights roughly proportional to the number of order types per (n, k) cell
    let n = 1 + rng.weighted(&[1, 3, 9, 27]);
    let mut ends = Vec::with_capacity(n);
    let mut x = 10.0;
    for i in 0..n {
        if i > 0 && rng.chance(2, 3) {
            x += 10.0;
        }
        ends.push(x);
    }
    let mut distinct = ends.clone();
    distinct.dedup();
    let m = distinct.len();
    let k = 1 + rng.weighted(&[1, 4, 16, 64]);
    let events = (0..k)
        .map(|_| {
            let slot = rng.usize_in(0, 2 * m);
            let x = if slot % 2 == 1 {
                distinct[slot / 2]
            } else {
                let lo = if slot == 0 { distinct[0] - 10.0 } else { distinct[slot / 2 - 1] };
                lo + 2.0 * rng.usize_in(1, 4) as f64
            };
            Ev::Query { c: 0, x }
        })
        .collect();
    let coefs = (0..n).map(|i| vec![(i + 1) as f64]).collect();
    CursorScn {
        funcs: vec![FuncSpec {
            kind: Kind::P(0),
            ends,
            coefs,
            source: crate::funcs::Source::Direct,
            other: None,
            ops: vec![],
            post: crate::funcs::Post::None,
        }],
        clients: vec![Client { func: 0, kind: ClientKind::Eval, from: 0 }],
        events,
        batches: vec![],
    }
}

// ---------------------------------------------------------------------------
// Shrinking
// ---------------------------------------------------------------------------

fn drop_unused(scn: &CursorScn) -> Option<CursorScn> {
    let mut used_c = vec![false; scn.clients.len()];
    for ev in &scn.events {
        if ev.client() < used_c.len() {
            used_c[ev.client()] = true;
        }
    }
    // keep at least one client
    if used_c.iter().all(|&u| !u) && !used_c.is_empty() {
        used_c[0] = true;
    }
    let cmap: Vec<Option<usize>> = {
        let mut k = 0;
        used_c
            .iter()
            .map(|&u| {
                if u {
                    k += 1;
                    Some(k - 1)
                } else {
                    None
                }
            })
            .collect()
    };
    let clients: Vec<Client> = scn.clients.iter().zip(&used_c).filter(|(_, &u)| u).map(|(c, _)| c.clone()).collect();
    let mut used_f = vec![false; scn.funcs.len()];
    for c in &clients {
        used_f[c.func] = true;
    }
    let fmap: Vec<Option<usize>> = {
        let mut k = 0;
        used_f
            .iter()
            .map(|&u| {
                if u {
                    k += 1;
                    Some(k - 1)
                } else {
                    None
                }
            })
            .collect()
    };
    if used_c.iter().all(|&u| u) && used_f.iter().all(|&u| u) {
        return None;
    }
    if !scn.batches.is_empty() {
        return None; // batches refer to functions by index; they are dropped by their own shrink step first
    }
    Some(CursorScn {
        batches: vec![],
        funcs: scn.funcs.iter().zip(&used_f).filter(|(_, &u)| u).map(|(f, _)| f.clone()).collect(),
        clients: clients
            .into_iter()
            .map(|c| Client {
                func: fmap[c.func].unwrap(),
                kind: c.kind,
                from: c.from,
            })
            .collect(),
        events: scn
            .events
            .iter()
            .filter_map(|e| match *e {
                Ev::Mutate { f, shift_ends, by } => fmap.get(f).copied().flatten().map(|nf| Ev::Mutate { f: nf, shift_ends, by }),
                _ => {
                    let c = e.client();
                    if c < cmap.len() {
                        cmap[c].map(|nc| e.with_client(nc))
                    } else {
                        None
                    }
                }
            })
            .collect(),
    })
}

/// Replace every end and argument by a small integer with the same order type.
fn rank_normalise(scn: &CursorScn) -> Option<CursorScn> {
    if scn.funcs.iter().any(|f| !f.is_direct()) {
        return None;
    }
    let mut vals: Vec<f64> = Vec::new();
    for f in &scn.funcs {
        vals.extend(f.ends.iter().copied());
    }
    for ev in &scn.events {
        if let Some(x) = ev.arg() {
            if !x.is_nan() {
                vals.push(x);
            }
        }
    }
    for b in &scn.batches {
        vals.extend(b.xs.iter().copied().filter(|x| !x.is_nan()));
    }
    vals.sort_by(|a, b| a.partial_cmp(b).unwrap());
    vals.dedup_by(|a, b| a == b);
    let map = |x: f64| -> f64 {
        if x.is_nan() {
            x
        } else {
            vals.partition_point(|&v| v < x) as f64
        }
    };
    let mut out = scn.clone();
    let mut changed = false;
    for f in &mut out.funcs {
        for e in &mut f.ends {
            let m = map(*e);
            changed |= m.to_bits() != e.to_bits();
            *e = m;
        }
    }
    for ev in &mut out.events {
        if let Some(x) = ev.arg() {
            let m = map(x);
            changed |= m.to_bits() != x.to_bits();
            *ev = ev.with_arg(m);
        }
    }
    for b in &mut out.batches {
        for x in b.xs.iter_mut() {
            let m = map(*x);
            changed |= m.to_bits() != x.to_bits();
            *x = m;
        }
    }
    if changed {
        Some(out)
    } else {
        None
    }
}

pub fn shrink_candidates(scn: &CursorScn) -> Vec<CursorScn> {
    let mut out = Vec::new();
    // 1. drop chunks of events (halves, quarters, ... single events)
    for (a, b) in removal_ranges(scn.events.len()) {
        let mut s = scn.clone();
        s.events.drain(a..b);
        out.push(s);
    }
    // 1b. drop / shorten whole-sequence batches
    for i in 0..scn.batches.len() {
        let mut s = scn.clone();
        s.batches.remove(i);
        out.push(s);
    }
    for (i, b) in scn.batches.iter().enumerate() {
        for (a, z) in removal_ranges(b.xs.len()) {
            let mut s = scn.clone();
            s.batches[i].xs.drain(a..z);
            out.push(s);
        }
        if b.mode != BatchMode::Collect {
            let mut s = scn.clone();
            s.batches[i].mode = BatchMode::Collect;
            out.push(s);
        }
    }
    // 1c. evaluators on the whole function rather than on a sub-slice
    for (i, c) in scn.clients.iter().enumerate() {
        if c.from > 0 {
            let mut s = scn.clone();
            s.clients[i].from = 0;
            out.push(s);
        }
    }
    // 2. drop unused clients / functions
    if let Some(s) = drop_unused(scn) {
        out.push(s);
    }
    // 3. simpler function sources and fewer segments
    for (fi, f) in scn.funcs.iter().enumerate() {
        for g in f.shrink() {
            let mut s = scn.clone();
            s.funcs[fi] = g;
            out.push(s);
        }
    }
    // 4. same order type on small integers
    if let Some(s) = rank_normalise(scn) {
        out.push(s);
    }
    // 5. canonical NaN
    for (i, ev) in scn.events.iter().enumerate() {
        if let Some(x) = ev.arg() {
            if x.is_nan() && x.to_bits() != f64::NAN.to_bits() {
                let mut s = scn.clone();
                s.events[i] = ev.with_arg(f64::NAN);
                out.push(s);
            }
        }
    }
    out
}

// ---------------------------------------------------------------------------
// JSON
// ---------------------------------------------------------------------------

pub fn scn_to_json(scn: &CursorScn) -> Value {
    json!({
        "world": "cursor",
        "functions": scn.funcs.iter().map(|f| f.to_json()).collect::<Vec<_>>(),
        "clients": scn.clients.iter().map(|c| json!({
            "function": c.func,
            "kind": match c.kind { ClientKind::Eval => "evaluator", ClientKind::Stream => "evaluate_v_stream" },
            "on_segments_from": c.from,
        })).collect::<Vec<_>>(),
        "events": scn.events.iter().map(|e| match *e {
            Ev::Query { c, x } => json!({"op": "query", "client": c, "x": fj(x)}),
            Ev::Feed { c, x } => json!({"op": "feed", "client": c, "x": fj(x)}),
            Ev::Pull { c } => json!({"op": "pull", "client": c}),
            Ev::Restart { c } => json!({"op": "restart", "client": c}),
            Ev::Mutate { f, shift_ends, by } => json!({"op": "mutate_in_place", "function": f, "how": if shift_ends { "every end += by" } else { "translate(by)" }, "by": fj(by)}),
        }).collect::<Vec<_>>(),
        "batches": scn.batches.iter().map(|b| json!({
            "function": b.func,
            "consume_with": match b.mode {
                BatchMode::Collect => json!("collect"),
                BatchMode::Fold => json!("fold"),
                BatchMode::Count => json!("count"),
                BatchMode::Last => json!("last"),
                BatchMode::Nth(k) => json!({"nth": k}),
                BatchMode::SizeHint => json!("size_hint+collect"),
                BatchMode::VecInput => json!("vec_input+collect"),
                BatchMode::Peekable => json!("peekable"),
                BatchMode::CycleInput => json!("unbounded_cycle_input+take"),
                BatchMode::Skip(k) => json!({"skip": k}),
                BatchMode::StepBy(k) => json!({"step_by": k}),
                BatchMode::ByRefTake(k) => json!({"by_ref_take": k}),
                BatchMode::Chain { head, k, tail, vec_input } => json!({"chain_head": CHAIN_HEADS[head as usize % 5], "k": k, "chain_tail": CHAIN_TAILS[tail as usize % 5], "vec_input": vec_input}),
            },
            "xs": fj_list(&b.xs),
        })).collect::<Vec<_>>(),
    })
}

pub fn scn_from_json(v: &Value) -> Result<CursorScn, String> {
    let funcs = v
        .get("functions")
        .and_then(|f| f.as_array())
        .ok_or("missing functions")?
        .iter()
        .map(FuncSpec::from_json)
        .collect::<Result<Vec<_>, _>>()?;
    let clients = v
        .get("clients")
        .and_then(|f| f.as_array())
        .ok_or("missing clients")?
        .iter()
        .map(|c| {
            Ok(Client {
                func: jusize(c, "function")?,
                kind: match jstr(c, "kind")? {
                    "evaluator" => ClientKind::Eval,
                    "evaluate_v_stream" => ClientKind::Stream,
                    k => return Err(format!("bad client kind {k}")),
                },
                from: c.get("on_segments_from").and_then(|x| x.as_u64()).unwrap_or(0) as usize,
            })
        })
        .collect::<Result<Vec<_>, String>>()?;
    let events = v
        .get("events")
        .and_then(|f| f.as_array())
        .ok_or("missing events")?
        .iter()
        .map(|e| {
            if jstr(e, "op")? == "mutate_in_place" {
                let f = jusize(e, "function")?;
                if f >= funcs.len() {
                    return Err("mutate_in_place refers to a missing function".to_string());
                }
                return Ok(Ev::Mutate { f, shift_ends: jstr(e, "how")? == "every end += by", by: jf(e.get("by").ok_or("missing by")?)? });
            }
            let c = jusize(e, "client")?;
            Ok(match jstr(e, "op")? {
                "query" => Ev::Query { c, x: jf(e.get("x").ok_or("missing x")?)? },
                "feed" => Ev::Feed { c, x: jf(e.get("x").ok_or("missing x")?)? },
                "pull" => Ev::Pull { c },
                "restart" => Ev::Restart { c },
                o => return Err(format!("bad op {o}")),
            })
        })
        .collect::<Result<Vec<_>, String>>()?;
    for c in &clients {
        if c.func >= funcs.len() {
            return Err("client refers to a missing function".into());
        }
    }
    let batches = match v.get("batches").and_then(|b| b.as_array()) {
        None => vec![],
        Some(a) => a
            .iter()
            .map(|b| {
                let func = jusize(b, "function")?;
                if func >= funcs.len() {
                    return Err("batch refers to a missing function".to_string());
                }
                let mode = match b.get("consume_with") {
                    Some(Value::String(s)) => match s.as_str() {
                        "collect" => BatchMode::Collect,
                        "fold" => BatchMode::Fold,
                        "count" => BatchMode::Count,
                        "last" => BatchMode::Last,
                        "size_hint+collect" => BatchMode::SizeHint,
                        "vec_input+collect" => BatchMode::VecInput,
                        "peekable" => BatchMode::Peekable,
                        "unbounded_cycle_input+take" => BatchMode::CycleInput,
                        x => return Err(format!("bad consume_with {x}")),
                    },
                    Some(o) if o.get("chain_head").is_some() => {
                        let pos = |key: &str, names: &[&str]| -> Result<u8, String> {
                            let v = o.get(key).and_then(|v| v.as_str()).ok_or(format!("missing {key}"))?;
                            names.iter().position(|n| *n == v).map(|i| i as u8).ok_or(format!("bad {key} {v}"))
                        };
                        let head = pos("chain_head", &CHAIN_HEADS)?;
                        let tail = pos("chain_tail", &CHAIN_TAILS)?;
                        let k = jusize(o, "k")?;
                        BatchMode::Chain { head, k: if head == 4 { k.max(1) } else { k }, tail, vec_input: o.get("vec_input").and_then(|v| v.as_bool()).unwrap_or(false) }
                    }
                    Some(o) if o.get("skip").is_some() => BatchMode::Skip(jusize(o, "skip")?),
                    Some(o) if o.get("step_by").is_some() => BatchMode::StepBy(jusize(o, "step_by")?.max(1)),
                    Some(o) if o.get("by_ref_take").is_some() => BatchMode::ByRefTake(jusize(o, "by_ref_take")?),
                    Some(o) => BatchMode::Nth(jusize(o, "nth")?),
                    None => return Err("missing consume_with".into()),
                };
                Ok(Batch { func, mode, xs: jf_list(b.get("xs").ok_or("missing xs")?)? })
            })
            .collect::<Result<Vec<_>, String>>()?,
    };
    Ok(CursorScn { funcs, clients, events, batches })
}

// ---------------------------------------------------------------------------
// Worlds
// ---------------------------------------------------------------------------

fn real_vs_stub() -> Value {
    json!({
        "real": [
            "piecewise_polynomial compiled from /repo's working tree (PiecewiseEvaluator::new/evaluate, Piecewise::evaluate, Piecewise::evaluate_v, every piece type's Evaluate, linear, constrained_spline, derivative/integral/indefinite, *, *=, -, translate, &f+&g, &f-&g as function sources)",
            "libm ln/exp through f64::ln"
        ],
        "simulated": [
            "query source of every evaluator (seeded moves)",
            "caller iterator of every evaluate_v stream (SimFeed: counts every pull)",
            "client lifetimes (drop / re-create = restart / cancellation)",
            "scheduler choosing which client steps next"
        ],
        "reference_model": ["select(ends,x) = first i with ends[i] > x else len-1 (used for C12's running-maximum rule and for probes)"],
        "not_present_in_target": ["threads", "clocks/timers", "network", "disk"]
    })
}

fn common_assumptions() -> Vec<String> {
    vec![
        "rustc/LLVM compile the library faithfully; the harness profile is opt-level=2 with debug-assertions and overflow-checks on, panic=unwind".into(),
        "NaN payload bits are unspecified by Rust and never compared; NaN-ness is".into(),
        "functions are well-formed: at least one segment, non-NaN non-decreasing ends; library-produced functions that are not are discarded and counted".into(),
        "seeded search samples histories; a clean batch is evidence, not proof".into(),
    ]
}

fn signature_of(class: &str, scn: &CursorScn) -> String {
    let has_nan = scn.events.iter().any(|e| e.arg().map_or(false, |x| x.is_nan()));
    let has_stream = scn.clients.iter().any(|c| c.kind == ClientKind::Stream);
    let has_eval = scn.clients.iter().any(|c| c.kind == ClientKind::Eval);
    format!(
        "{class}/{}{}{}",
        if has_eval { "evaluator" } else { "" },
        if has_stream { "stream" } else { "" },
        if has_nan { "/after-nan" } else { "" }
    )
}

macro_rules! cursor_world_common {
    () => {
        type Scn = CursorScn;
        fn shrink(&self, scn: &CursorScn) -> Vec<CursorScn> {
            shrink_candidates(scn)
        }
        fn to_json(&self, scn: &CursorScn) -> Value {
            scn_to_json(scn)
        }
        fn from_json(&self, v: &Value) -> Result<CursorScn, String> {
            scn_from_json(v)
        }
        fn signature(&self, class: &str, scn: &CursorScn) -> String {
            signature_of(class, scn)
        }
        fn real_vs_stub(&self) -> Value {
            real_vs_stub()
        }
    };
}

/// Reach counters by size class (bookkeeping only).
fn size_classes(scn: &CursorScn, cov: &mut Cov) {
    if !cov.enabled {
        return;
    }
    for f in &scn.funcs {
        cov.hit(match f.ends.len() {
            0..=1 => "functions_with_1_segment",
            2..=4 => "functions_with_2_4_segments",
            5..=12 => "functions_with_5_12_segments",
            13..=40 => "functions_with_13_40_segments",
            41..=300 => "functions_with_41_300_segments",
            301..=1100 => "functions_with_301_1100_segments",
            1101..=100_000 => "functions_with_1101_100k_segments",
            _ => "functions_with_over_100k_segments",
        });
    }
    let n = scn.events.len() + scn.batches.iter().map(|b| b.xs.len()).sum::<usize>();
    cov.hit(match n {
        0..=2 => "histories_of_1_2_events",
        3..=6 => "histories_of_3_6_events",
        7..=16 => "histories_of_7_16_events",
        17..=64 => "histories_of_17_64_events",
        65..=400 => "histories_of_65_400_events",
        401..=2000 => "histories_of_401_2000_events",
        _ => "histories_of_over_2000_events",
    });
}

fn explore_plain(scn: &CursorScn, judge: Judge, cov: &mut Cov, prog: &Progress) -> Outcome<CursorScn> {
    size_classes(scn, cov);
    match execute(scn, judge, cov, prog) {
        RunResult::Clean { digest } => {
            if cov.enabled && nontrivial(scn) {
                let ends: Vec<Vec<f64>> = scn.funcs.iter().map(|f| f.steering_ends()).collect();
                cov.note_distinct(order_type(&ends, scn));
            }
            Outcome { digest, violation: None }
        }
        RunResult::Discard => {
            cov.discards += 1;
            Outcome { digest: 0, violation: None }
        }
        RunResult::Violation { class, detail } => Outcome {
            digest: 1,
            violation: Some(Violation { class, detail, scn: scn.clone() }),
        },
    }
}

fn check_plain(scn: &CursorScn, judge: Judge, cov: &mut Cov, prog: &Progress) -> Option<(String, String)> {
    match execute(scn, judge, cov, prog) {
        RunResult::Violation { class, detail } => Some((class, detail)),
        _ => None,
    }
}

const ORDER_RULE: &str = "distinct = distinct order types: the weak ordering (with ties) of all breakpoints and all arguments of the run, plus the client layout and the kind/position of every event, hashed; two runs with the same order type take the same control-flow path through the cursor code. non-trivial = the run has a function with >= 2 segments and some client that answered >= 2 times.";

// ---- C03 -------------------------------------------------------------------

pub struct C03;

impl World for C03 {
    cursor_world_common!();
    fn prop(&self) -> &'static str {
        "C03"
    }
    fn level(&self) -> &'static str {
        "exploration"
    }
    fn default_runs(&self, tier: Tier) -> u64 {
        match tier {
            Tier::Quick => 6_000_000,
            Tier::Thorough => 300_000_000,
        }
    }
    fn generate(&self, rng: &mut Rng, tier: Tier) -> CursorScn {
        if rng.chance(1, 6) {
            gen_small_scope(rng)
        } else {
            gen_scenario(rng, Profile::Evaluators, tier)
        }
    }
    fn explore(&self, base: &CursorScn, _tier: Tier, cov: &mut Cov, prog: &Progress) -> Outcome<CursorScn> {
        let out = explore_plain(base, Judge { evals: true, streams: false, build: false, battery: false }, cov, prog);
        if cov.enabled && out.violation.is_none() {
            if let Some(c) = small_scope_class(base) {
                cov.aux.insert(c);
                cov.hit("small_scope_runs");
            }
        }
        out
    }
    fn extra_coverage(&self, cov: &Cov, out: &mut Map<String, Value>) {
        let universe = small_scope_universe();
        out.insert(
            "small_scope_saturation".into(),
            json!({
                "scope": "one directly built function with 1-4 segments (finite ends, any tie pattern), one evaluator, 1-4 finite queries, no restart",
                "order_types_in_scope": universe,
                "order_types_reached_by_this_run": cov.aux.len(),
                "fraction": cov.aux.len() as f64 / universe as f64,
                "note": "a measurement of reach, not the deciding step: the scope is sampled by the seeded generator (1/6 of the runs are drawn from it directly), not enumerated"
            }),
        );
    }
    fn check(&self, scn: &CursorScn, cov: &mut Cov, prog: &Progress) -> Option<(String, String)> {
        check_plain(scn, Judge { evals: true, streams: false, build: false, battery: false }, cov, prog)
    }
    fn rule(&self) -> String {
        format!("Each run: 1-5 seeded piecewise functions (30 piece types incl. a nested piecewise piece, 8 breakpoint patterns, 1 to 65 537 segments, library-produced sources), 1-9 PiecewiseEvaluator clients (whole function or a sub-slice), 1-64 events mostly and up to 400 000 rarely (queries drawn from 17 seeded move kinds, repeat bursts, monotone drifts, evaluator restarts, in-place mutation of the function between client lifetimes) scheduled by the PRNG; one run in six is drawn from the small scope; after every query the evaluator's answer is compared bit for bit with Piecewise::evaluate. {ORDER_RULE}")
    }
    fn assumptions(&self) -> Vec<String> {
        let mut a = common_assumptions();
        a.push("C03 runs are NaN-free (NaN queries are C16's fault space); +-inf queries are included".into());
        a
    }
}

// ---- C12 -------------------------------------------------------------------

pub struct C12;

impl World for C12 {
    cursor_world_common!();
    fn prop(&self) -> &'static str {
        "C12"
    }
    fn level(&self) -> &'static str {
        "exploration"
    }
    fn default_runs(&self, tier: Tier) -> u64 {
        match tier {
            Tier::Quick => 6_000_000,
            Tier::Thorough => 300_000_000,
        }
    }
    fn generate(&self, rng: &mut Rng, tier: Tier) -> CursorScn {
        gen_scenario(rng, Profile::Streams, tier)
    }
    fn explore(&self, base: &CursorScn, _tier: Tier, cov: &mut Cov, prog: &Progress) -> Outcome<CursorScn> {
        explore_plain(base, Judge { evals: false, streams: true, build: false, battery: false }, cov, prog)
    }
    fn check(&self, scn: &CursorScn, cov: &mut Cov, prog: &Progress) -> Option<(String, String)> {
        check_plain(scn, Judge { evals: false, streams: true, build: false, battery: false }, cov, prog)
    }
    fn rule(&self) -> String {
        format!("Each run: 1-5 seeded piecewise functions, 1-9 evaluate_v streams fed through a simulator-owned lazy iterator (bursts of feeds, then pulls, interleaved across streams by the PRNG, with cancel/restart and in-place mutation of the function between stream lifetimes), plus up to two whole-sequence consumptions of fresh streams (collect, fold, count, last, nth, skip, step_by, peekable, by_ref+take, size_hint, Vec input, unbounded cycle input, and two-stage chains: next×k / nth / skip / by_ref+take / step_by followed by fold / for_each / last / count / for-loop; 0-300 arguments, rarely up to 70 000); per pull: exactly one input consumed, result compared bit for bit with pointwise evaluation (non-decreasing prefix) or with the segment selected for the running maximum (after a decrease). {ORDER_RULE}")
    }
    fn assumptions(&self) -> Vec<String> {
        let mut a = common_assumptions();
        a.push("nothing is asserted after the caller's iterator has returned None; NaN inputs are C16's".into());
        a
    }
}

// ---- C16 -------------------------------------------------------------------

pub struct C16;

/// Faults C16 injects: (kind of value, bits).
fn c16_fault_values(_tier: Tier) -> Vec<f64> {
    let mut v: Vec<f64> = NAN_VARIANTS.iter().map(|&b| f64::from_bits(b)).collect();
    v.push(f64::INFINITY);
    v.push(f64::NEG_INFINITY);
    v
}

/// Enumerate the single-fault variants of a base scenario: every position, every
/// fault value, every client (a NaN query for evaluators, a NaN feed+pull for streams).
/// Histories longer than this are "long": fault positions are sampled (start, middle, end), not enumerated.
const C16_LONG: usize = 2000;

/// Insertion positions of the injected fault: every position 0..=len, or five sampled ones for long histories.
fn c16_positions(base: &CursorScn) -> Vec<usize> {
    let n = base.events.len();
    if n <= C16_LONG {
        (0..=n).collect()
    } else {
        vec![0, 1, n / 2, n - 1, n]
    }
}

fn c16_variant_count(base: &CursorScn, tier: Tier) -> u64 {
    c16_positions(base).len() as u64 * c16_fault_values(tier).len() as u64 * base.clients.len() as u64
}

fn c16_variant(base: &CursorScn, sub: u64, tier: Tier) -> CursorScn {
    if sub == 0 {
        return base.clone();
    }
    // the whole-sequence batches are consumed once, with the base; the faulted variants are about the
    // event history
    let sub = sub - 1;
    let vals = c16_fault_values(tier);
    let nv = vals.len() as u64;
    let nc = base.clients.len() as u64;
    let single = c16_variant_count(base, tier);
    let insert = |scn: &mut CursorScn, pos: usize, c: usize, x: f64| match scn.clients[c].kind {
        ClientKind::Eval => scn.events.insert(pos, Ev::Query { c, x }),
        ClientKind::Stream => {
            scn.events.insert(pos, Ev::Feed { c, x });
            // the pull goes where the stream's queue will deliver this feed: simplest is to
            // append a pull right away; queued older feeds are then delivered first and the
            // NaN is pulled by a later pull of the base history or by the drain below.
            scn.events.insert(pos + 1, Ev::Pull { c });
            scn.events.push(Ev::Pull { c });
        }
    };
    let mut s = base.clone();
    s.batches.clear();
    if sub < single {
        let pos = c16_positions(base)[(sub / (nv * nc)) as usize];
        let c = ((sub / nv) % nc) as usize;
        let x = vals[(sub % nv) as usize];
        insert(&mut s, pos, c, x);
        return s;
    }
    // Thorough: pairs — NaN at p then a second fault (NaN / restart / +-inf) at q >= p on the same client.
    let sub2 = sub - single;
    let n1 = base.events.len() as u64 + 1;
    let second: [u8; 4] = [0, 1, 2, 3];
    let per_c = n1 * n1 * second.len() as u64;
    let c = ((sub2 / per_c) % nc) as usize;
    let r = sub2 % per_c;
    let p = (r / (n1 * second.len() as u64)) as usize;
    let q = ((r / second.len() as u64) % n1) as usize;
    let kind = second[(r % second.len() as u64) as usize];
    let (p, q) = if p <= q { (p, q) } else { (q, p) };
    // insert the later one first so positions stay valid
    match kind {
        0 => insert(&mut s, q, c, f64::NAN),
        1 => s.events.insert(q, Ev::Restart { c }),
        2 => insert(&mut s, q, c, f64::INFINITY),
        _ => insert(&mut s, q, c, f64::NEG_INFINITY),
    }
    insert(&mut s, p, c, f64::NAN);
    s
}

fn c16_total(base: &CursorScn, tier: Tier) -> u64 {
    let single = c16_variant_count(base, tier);
    let pairs = if tier == Tier::Thorough && base.events.len() <= 8 {
        let n1 = base.events.len() as u64 + 1;
        n1 * n1 * 4 * base.clients.len() as u64
    } else {
        0
    };
    1 + single + pairs
}

impl World for C16 {
    cursor_world_common!();
    fn prop(&self) -> &'static str {
        "C16"
    }
    fn level(&self) -> &'static str {
        "fault_enumeration"
    }
    fn default_runs(&self, tier: Tier) -> u64 {
        match tier {
            Tier::Quick => 300_000,
            Tier::Thorough => 5_000_000,
        }
    }
    fn generate(&self, rng: &mut Rng, tier: Tier) -> CursorScn {
        gen_scenario(rng, Profile::Mixed, tier)
    }
    fn explore(&self, base: &CursorScn, tier: Tier, cov: &mut Cov, prog: &Progress) -> Outcome<CursorScn> {
        let judge = Judge { evals: true, streams: false, build: true, battery: false };
        size_classes(base, cov);
        let total = c16_total(base, tier);
        let mut dig = Digest::new();
        for sub in 0..total {
            prog.set_sub(sub);
            let scn = c16_variant(base, sub, tier);
            let judge = Judge { battery: sub == 0, ..judge };
            match execute(&scn, judge, cov, prog) {
                RunResult::Clean { digest } => {
                    dig.word(digest);
                    if sub > 0 {
                        cov.hit("faulted_executions");
                        if cov.enabled && nontrivial(&scn) {
                            let ends: Vec<Vec<f64>> = scn.funcs.iter().map(|f| f.steering_ends()).collect();
                            cov.note_distinct(order_type(&ends, &scn));
                        }
                    }
                }
                RunResult::Discard => {
                    cov.discards += 1;
                    return Outcome { digest: 0, violation: None };
                }
                RunResult::Violation { class, detail } => {
                    return Outcome {
                        digest: 1,
                        violation: Some(Violation { class, detail, scn }),
                    }
                }
            }
        }
        Outcome { digest: dig.0, violation: None }
    }
    fn variant(&self, base: &CursorScn, sub: u64, tier: Tier) -> CursorScn {
        c16_variant(base, sub, tier)
    }
    fn variant_count(&self, base: &CursorScn, tier: Tier) -> u64 {
        c16_total(base, tier)
    }
    fn check(&self, scn: &CursorScn, cov: &mut Cov, prog: &Progress) -> Option<(String, String)> {
        check_plain(scn, Judge { evals: true, streams: false, build: true, battery: true }, cov, prog)
    }
    fn rule(&self) -> String {
        format!("Each evaluation is one seeded fault-free base history (1-16 events over evaluators and evaluate_v streams, as in C03/C12) plus ALL its single-fault variants: a NaN query (4 bit patterns: NAN, -NAN, signalling pattern, payload) or a +-inf query inserted at every position 0..=len on every client (five sampled positions for the few base histories longer than 2000 events); thorough also enumerates all position pairs of (NaN, then NaN | restart | +inf | -inf) for bases of <= 8 events. Every library call runs under catch_unwind; every non-NaN evaluator answer in every variant must equal Piecewise::evaluate bit for bit. counters.faulted_executions is the number of faulted histories executed. Once per base history an operation battery (piece-, segment- and piecewise-level clone, ==, abs_diff_eq, relative_eq, translate, *, *=, -, +, derivative, indefinite, integral, integral_iter(_ref) as they exist for the piece type) runs on every function under the crash monitor (counters.ops_battery_operations); counters.op_* count the library constructors and operators used as function sources. {ORDER_RULE} (counted over the faulted histories, the NaN being one more rank)")
    }
    fn assumptions(&self) -> Vec<String> {
        let mut a = common_assumptions();
        a.push("the value returned FOR a NaN query is unconstrained (direct evaluation and the evaluator may legitimately pick different segments); an evaluate_v stream is not judged after a NaN input, only required not to panic".into());
        a.push("the 'every operation returns without panicking on well-formed input' half of C16 is only monitored (catch_unwind around every library call made by every world), not decided".into());
        a
    }
    fn extra_coverage(&self, cov: &Cov, out: &mut Map<String, Value>) {
        out.insert("fault_positions_enumerated_exhaustively_per_base".into(), json!(true));
        out.insert(
            "faulted_histories_executed".into(),
            json!(cov.counters.get("faulted_executions").copied().unwrap_or(0)),
        );
    }
}

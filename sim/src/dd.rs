//! Double-double arithmetic (~106 significant bits) for the closed-form integral
//! oracle of the integrator world. Independent of the library under test and, for
//! `ln`, of libm beyond an initial guess that is then corrected by Newton steps
//! on a double-double `exp`.

#[derive(Clone, Copy, Debug, PartialEq)]
pub struct DD {
    pub hi: f64,
    pub lo: f64,
}

#[inline]
fn two_sum(a: f64, b: f64) -> (f64, f64) {
    let s = a + b;
    let bb = s - a;
    let e = (a - (s - bb)) + (b - bb);
    (s, e)
}

#[inline]
fn quick_two_sum(a: f64, b: f64) -> (f64, f64) {
    let s = a + b;
    let e = b - (s - a);
    (s, e)
}

#[inline]
fn two_prod(a: f64, b: f64) -> (f64, f64) {
    let p = a * b;
    let e = a.mul_add(b, -p);
    (p, e)
}

impl DD {
    pub const ZERO: DD = DD { hi: 0.0, lo: 0.0 };
    pub const ONE: DD = DD { hi: 1.0, lo: 0.0 };
    /// ln 2 to double-double precision.
    pub const LN2: DD = DD {
        hi: 6.931471805599452862e-01,
        lo: 2.319046813846299558e-17,
    };

    #[inline]
    pub fn from(x: f64) -> DD {
        DD { hi: x, lo: 0.0 }
    }
    #[inline]
    pub fn to_f64(self) -> f64 {
        self.hi + self.lo
    }
    #[inline]
    pub fn is_finite(self) -> bool {
        self.hi.is_finite() && self.lo.is_finite()
    }
    #[inline]
    pub fn neg(self) -> DD {
        DD { hi: -self.hi, lo: -self.lo }
    }
    #[inline]
    pub fn abs(self) -> DD {
        if self.hi < 0.0 || (self.hi == 0.0 && self.lo < 0.0) {
            self.neg()
        } else {
            self
        }
    }
    #[inline]
    pub fn add(self, b: DD) -> DD {
        let (s1, s2) = two_sum(self.hi, b.hi);
        let (t1, t2) = two_sum(self.lo, b.lo);
        let s2 = s2 + t1;
        let (s1, s2) = quick_two_sum(s1, s2);
        let s2 = s2 + t2;
        let (hi, lo) = quick_two_sum(s1, s2);
        DD { hi, lo }
    }
    #[inline]
    pub fn sub(self, b: DD) -> DD {
        self.add(b.neg())
    }
    #[inline]
    pub fn add_f(self, b: f64) -> DD {
        self.add(DD::from(b))
    }
    #[inline]
    pub fn mul(self, b: DD) -> DD {
        let (p1, p2) = two_prod(self.hi, b.hi);
        let p2 = p2 + (self.hi * b.lo + self.lo * b.hi);
        let (hi, lo) = quick_two_sum(p1, p2);
        DD { hi, lo }
    }
    #[inline]
    pub fn mul_f(self, b: f64) -> DD {
        let (p1, p2) = two_prod(self.hi, b);
        let p2 = p2 + self.lo * b;
        let (hi, lo) = quick_two_sum(p1, p2);
        DD { hi, lo }
    }
    pub fn div(self, b: DD) -> DD {
        let q1 = self.hi / b.hi;
        let r = self.sub(b.mul_f(q1));
        let q2 = r.hi / b.hi;
        let r = r.sub(b.mul_f(q2));
        let q3 = r.hi / b.hi;
        let (q1, q2) = quick_two_sum(q1, q2);
        DD { hi: q1, lo: q2 }.add_f(q3)
    }
    #[inline]
    pub fn div_f(self, b: f64) -> DD {
        self.div(DD::from(b))
    }
    /// Multiply by an exact power of two.
    #[inline]
    pub fn scale2(self, k: i32) -> DD {
        let f = 2f64.powi(k);
        DD { hi: self.hi * f, lo: self.lo * f }
    }
    pub fn powi(self, n: u32) -> DD {
        let mut r = DD::ONE;
        let mut b = self;
        let mut e = n;
        while e > 0 {
            if e & 1 == 1 {
                r = r.mul(b);
            }
            b = b.mul(b);
            e >>= 1;
        }
        r
    }

    /// e^x for |x| up to a few hundred.
    pub fn exp(self) -> DD {
        if self.hi == 0.0 && self.lo == 0.0 {
            return DD::ONE;
        }
        let k = (self.hi / DD::LN2.hi).round();
        // r = x - k ln2, then r /= 2^9 so that the Taylor series converges fast
        let r = self.sub(DD::LN2.mul_f(k)).scale2(-9);
        // Taylor: sum_{j>=0} r^j / j!
        let mut term = DD::ONE;
        let mut sum = DD::ONE;
        for j in 1..30 {
            term = term.mul(r).div_f(j as f64);
            sum = sum.add(term);
            if term.hi.abs() < 1e-40 * sum.hi.abs() {
                break;
            }
        }
        // square 9 times
        let mut s = sum;
        for _ in 0..9 {
            s = s.mul(s);
        }
        let k = k as i32;
        // split the power of two to avoid overflow of 2^k itself
        let k1 = k / 2;
        s.scale2(k1).scale2(k - k1)
    }

    /// ln x for x > 0, by Newton's method on `exp` starting from libm's value.
    pub fn ln(x: f64) -> DD {
        debug_assert!(x > 0.0);
        if x == 1.0 {
            return DD::ZERO;
        }
        let mut y = DD::from(x.ln());
        for _ in 0..3 {
            // y <- y + x * exp(-y) - 1
            let e = y.neg().exp();
            y = y.add(e.mul_f(x).sub(DD::ONE));
        }
        y
    }
}

/// Horner evaluation of sum_j c[j] * x^j in double-double.
pub fn horner(c: &[DD], x: DD) -> DD {
    let mut acc = DD::ZERO;
    for &cj in c.iter().rev() {
        acc = acc.mul(x).add(cj);
    }
    acc
}

#[cfg(test)]
mod tests {
    use super::*;
    #[test]
    fn exp_ln_roundtrip() {
        for &x in &[0.001, 0.3, 0.999999, 1.0000001, 2.0, 7.5, 1000.0, 1e-3] {
            let l = DD::ln(x);
            let e = l.exp();
            let err = (e.sub(DD::from(x))).to_f64().abs() / x;
            assert!(err < 1e-27, "x={x} err={err}");
            assert!((l.hi - x.ln()).abs() <= 2.0 * f64::EPSILON * x.ln().abs().max(1e-300));
        }
        let e1 = DD::ONE.exp();
        assert!((e1.hi - std::f64::consts::E).abs() < 1e-15);
        // e to 32 digits: 2.7182818284590452353602874713527
        assert!((e1.lo - 1.4456468917292502e-16).abs() < 1e-27, "{:e}", e1.lo);
    }
}

//! Run loop, worker pool, crash/hang supervision, minimisation, replay and
//! evidence writing shared by all worlds.

use crate::rng::{run_seed, Rng};
use serde_json::{json, Map, Value};
use std::cell::RefCell;
use std::collections::{BTreeMap, HashSet};
use std::panic::{self, AssertUnwindSafe};
use std::sync::atomic::{AtomicBool, AtomicU64, Ordering};
use std::sync::{Arc, Mutex};
use std::time::{Duration, Instant};

pub const DEFAULT_SEED: u64 = 20260927;
/// Distinct cases are counted in a bitmap shared by all workers and indexed by the low bits of the
/// case hash: 2^28 bits (32 MB) in the quick tier, 2^32 bits (512 MB) in the thorough tier. Two cases
/// whose hashes collide in the index are counted once, so the figure is a conservative (lower) count.
pub struct Bitmap {
    bits: Vec<AtomicU64>,
    mask: u64,
}

impl Bitmap {
    pub fn new(log2_bits: u32) -> Bitmap {
        let words = 1usize << (log2_bits - 6);
        Bitmap { bits: (0..words).map(|_| AtomicU64::new(0)).collect(), mask: (1u64 << log2_bits) - 1 }
    }
    #[inline]
    pub fn set(&self, h: u64) {
        // mix so that the index does not depend on the structure of the FNV digest's low bits
        let mut s = h;
        let i = crate::rng::splitmix64(&mut s) & self.mask;
        self.bits[(i >> 6) as usize].fetch_or(1 << (i & 63), Ordering::Relaxed);
    }
    pub fn count(&self) -> u64 {
        self.bits.iter().map(|w| w.load(Ordering::Relaxed).count_ones() as u64).sum()
    }
    pub fn capacity(&self) -> u64 {
        self.mask + 1
    }
}
pub const HANG_SECS: u64 = 30;

#[derive(Clone, Copy, Debug, PartialEq, Eq)]
pub enum Tier {
    Quick,
    Thorough,
}

impl Tier {
    pub fn name(self) -> &'static str {
        match self {
            Tier::Quick => "quick",
            Tier::Thorough => "thorough",
        }
    }
}

/// A violation of the property a world is checking, together with the explicit
/// scenario (already containing any injected fault) that exhibits it.
#[derive(Clone, Debug)]
pub struct Violation<S> {
    /// `mismatch`, `panic`, `hang`, `laziness`, `tolerance`, `malformed`, ...
    pub class: String,
    pub detail: String,
    pub scn: S,
}

/// Coverage bookkeeping of one worker. Never touches the PRNG.
#[derive(Default)]
pub struct Cov {
    pub counters: BTreeMap<&'static str, u64>,
    pub distinct: Option<Arc<Bitmap>>,
    /// a second, small exact set for world-specific saturation measures (e.g. small-scope order types)
    pub aux: HashSet<u64>,
    pub events: u64,
    pub executions: u64,
    pub discards: u64,
    pub enabled: bool,
}

impl Cov {
    pub fn new(enabled: bool) -> Cov {
        Cov {
            enabled,
            ..Default::default()
        }
    }
    #[inline]
    pub fn hit(&mut self, key: &'static str) {
        if self.enabled {
            *self.counters.entry(key).or_insert(0) += 1;
        }
    }
    #[inline]
    pub fn add(&mut self, key: &'static str, n: u64) {
        if self.enabled {
            *self.counters.entry(key).or_insert(0) += n;
        }
    }
    #[inline]
    pub fn note_distinct(&mut self, h: u64) {
        if !self.enabled {
            return;
        }
        if let Some(b) = &self.distinct {
            b.set(h);
        }
    }
    pub fn merge(&mut self, other: Cov) {
        for (k, v) in other.counters {
            *self.counters.entry(k).or_insert(0) += v;
        }
        self.aux.extend(other.aux);
        self.events += other.events;
        self.executions += other.executions;
        self.discards += other.discards;
    }
}

/// Per-worker progress cell watched by the hang watchdog (which never influences
/// any schedule: it only reads).
#[derive(Default)]
pub struct Progress {
    pub active: AtomicBool,
    pub run_index: AtomicU64,
    pub sub: AtomicU64,
    pub ticks: AtomicU64,
}

impl Progress {
    #[inline]
    pub fn tick(&self) {
        self.ticks.fetch_add(1, Ordering::Relaxed);
    }
    #[inline]
    pub fn set_sub(&self, sub: u64) {
        self.sub.store(sub, Ordering::Relaxed);
        self.tick();
    }
}

pub struct Outcome<S> {
    pub digest: u64,
    pub violation: Option<Violation<S>>,
}

/// What a world has to provide.
pub trait World: Sync + Send + 'static {
    type Scn: Clone + Send + 'static;
    fn prop(&self) -> &'static str;
    fn level(&self) -> &'static str;
    fn default_runs(&self, tier: Tier) -> u64;
    /// Draw a base scenario. Pure function of the generator state.
    fn generate(&self, rng: &mut Rng, tier: Tier) -> Self::Scn;
    /// Explore one base scenario (for fault-enumeration worlds: the base and every
    /// enumerated fault placement around it).
    fn explore(&self, base: &Self::Scn, tier: Tier, cov: &mut Cov, prog: &Progress) -> Outcome<Self::Scn>;
    /// The `sub`-th faulted variant of `base` as enumerated by `explore` (used by the
    /// hang watchdog to reconstruct the scenario in flight).
    fn variant(&self, base: &Self::Scn, _sub: u64, _tier: Tier) -> Self::Scn {
        base.clone()
    }
    /// How many variants `explore` enumerates for `base` (sub = 0 is the base itself).
    fn variant_count(&self, _base: &Self::Scn, _tier: Tier) -> u64 {
        1
    }
    /// Execute one explicit scenario literally: returns the violation class/detail if any.
    fn check(&self, scn: &Self::Scn, cov: &mut Cov, prog: &Progress) -> Option<(String, String)>;
    /// Candidate simplifications, most aggressive first.
    fn shrink(&self, scn: &Self::Scn) -> Vec<Self::Scn>;
    fn to_json(&self, scn: &Self::Scn) -> Value;
    fn from_json(&self, v: &Value) -> Result<Self::Scn, String>;
    /// Coarse signature of a (minimised) violating scenario, matched against known-findings.
    fn signature(&self, class: &str, scn: &Self::Scn) -> String;
    /// Static description pieces for the evidence file.
    fn rule(&self) -> String;
    fn assumptions(&self) -> Vec<String>;
    fn real_vs_stub(&self) -> Value;
    /// Extra world-specific coverage entries computed from the merged counters.
    fn extra_coverage(&self, _cov: &Cov, _out: &mut Map<String, Value>) {}
}

// ---------------------------------------------------------------------------
// Panic capture
// ---------------------------------------------------------------------------

thread_local! {
    static LAST_PANIC: RefCell<Option<String>> = const { RefCell::new(None) };
}

pub fn install_silent_panic_hook() {
    panic::set_hook(Box::new(|info| {
        let msg = if let Some(s) = info.payload().downcast_ref::<&str>() {
            (*s).to_string()
        } else if let Some(s) = info.payload().downcast_ref::<String>() {
            s.clone()
        } else {
            "<non-string panic payload>".to_string()
        };
        let loc = info
            .location()
            .map(|l| format!("{}:{}", l.file(), l.line()))
            .unwrap_or_default();
        if std::env::var_os("PWSIM_DEBUG").is_some() {
            eprintln!("panic: {msg} @ {loc}");
        }
        LAST_PANIC.with(|p| *p.borrow_mut() = Some(format!("{msg} @ {loc}")));
    }));
}

/// Run a library call under the crash monitor.
#[inline]
pub fn guard<T>(f: impl FnOnce() -> T) -> Result<T, String> {
    match panic::catch_unwind(AssertUnwindSafe(f)) {
        Ok(v) => Ok(v),
        Err(_) => Err(LAST_PANIC
            .with(|p| p.borrow_mut().take())
            .unwrap_or_else(|| "<panic>".to_string())),
    }
}

// ---------------------------------------------------------------------------
// f64 <-> JSON helpers (bit patterns in hex + decimal rendering for readers)
// ---------------------------------------------------------------------------

pub fn fj(x: f64) -> Value {
    Value::String(format!("0x{:016x} ({:e})", x.to_bits(), x))
}

pub fn fj_list(xs: &[f64]) -> Value {
    Value::Array(xs.iter().map(|&x| fj(x)).collect())
}

pub fn jf(v: &Value) -> Result<f64, String> {
    let s = v.as_str().ok_or_else(|| format!("expected hex-float string, got {v}"))?;
    let hex = s.split_whitespace().next().unwrap_or("");
    let hex = hex.strip_prefix("0x").ok_or_else(|| format!("bad float {s}"))?;
    u64::from_str_radix(hex, 16)
        .map(f64::from_bits)
        .map_err(|e| format!("bad float {s}: {e}"))
}

pub fn jf_list(v: &Value) -> Result<Vec<f64>, String> {
    v.as_array()
        .ok_or_else(|| "expected array of floats".to_string())?
        .iter()
        .map(jf)
        .collect()
}

pub fn jusize(v: &Value, key: &str) -> Result<usize, String> {
    v.get(key)
        .and_then(|x| x.as_u64())
        .map(|x| x as usize)
        .ok_or_else(|| format!("missing integer field {key}"))
}

pub fn jstr<'a>(v: &'a Value, key: &str) -> Result<&'a str, String> {
    v.get(key)
        .and_then(|x| x.as_str())
        .ok_or_else(|| format!("missing string field {key}"))
}

// ---------------------------------------------------------------------------
// Known findings
// ---------------------------------------------------------------------------

pub struct KnownFindings {
    /// (property, signature, description) of `finding:` lines. `fixed:` lines suppress nothing.
    pub open: Vec<(String, String, String)>,
}

impl KnownFindings {
    pub fn load(path: &str) -> KnownFindings {
        let mut open = Vec::new();
        if let Ok(text) = std::fs::read_to_string(path) {
            for line in text.lines() {
                let line = line.trim();
                if let Some(rest) = line.strip_prefix("finding:") {
                    let mut prop = String::new();
                    let mut sig = String::new();
                    let mut desc = Vec::new();
                    for tok in rest.split_whitespace() {
                        if let Some(p) = tok.strip_prefix("property=") {
                            prop = p.to_string();
                        } else if let Some(s) = tok.strip_prefix("signature=") {
                            sig = s.to_string();
                        } else {
                            desc.push(tok);
                        }
                    }
                    if !prop.is_empty() && !sig.is_empty() {
                        open.push((prop, sig, desc.join(" ")));
                    }
                }
            }
        }
        KnownFindings { open }
    }
    pub fn matches(&self, prop: &str, sig: &str) -> Option<&str> {
        self.open
            .iter()
            .find(|(p, s, _)| p == prop && s == sig)
            .map(|(_, _, d)| d.as_str())
    }
}

// ---------------------------------------------------------------------------
// The run loop
// ---------------------------------------------------------------------------

pub struct RunConfig {
    pub tier: Tier,
    pub seed: u64,
    /// runs explored are first_run..runs
    pub first_run: u64,
    pub runs: u64,
    pub workers: usize,
    pub evidence_path: Option<String>,
    pub replay_dir: String,
    pub known_findings: String,
    pub digest_only: bool,
    /// evidence file of the same property from another build configuration, merged into this one
    pub merge_part: Option<String>,
    pub max_wall_s: u64,
    /// internal (child process of the reproduction fallback): one worker, stop at the first violation,
    /// print `SEQFIND <run index>` and exit without minimising
    pub seqfind: bool,
}

pub struct RunReport {
    pub exit_code: i32,
    pub combined_digest: u64,
}

struct Found<S> {
    run_index: u64,
    seed: u64,
    violation: Violation<S>,
}

pub fn verif_root() -> String {
    std::env::var("VERIF_ROOT").unwrap_or_else(|_| "/verif".to_string())
}

/// Explore `cfg.runs` seeded base scenarios of `world` on `cfg.workers` threads.
pub fn run_world<W: World>(world: Arc<W>, cfg: &RunConfig) -> RunReport {
    let t0 = Instant::now();
    let prop = world.prop();
    let next = Arc::new(AtomicU64::new(cfg.first_run));
    // Lowest run index at which a (non-known) violation has been found so far.
    let stop_at = Arc::new(AtomicU64::new(u64::MAX));
    let truncated = Arc::new(AtomicBool::new(false));
    let progress: Arc<Vec<Progress>> = Arc::new((0..cfg.workers).map(|_| Progress::default()).collect());
    let found: Arc<Mutex<Vec<Found<W::Scn>>>> = Arc::new(Mutex::new(Vec::new()));
    let digests: Arc<Mutex<Vec<(u64, u64)>>> = Arc::new(Mutex::new(Vec::new()));
    let samples: Arc<Mutex<Vec<(u64, Value)>>> = Arc::new(Mutex::new(Vec::new()));
    let done = Arc::new(AtomicBool::new(false));

    // Hang watchdog: reads progress cells only.
    let wd = {
        let progress = progress.clone();
        let done = done.clone();
        let world = world.clone();
        let tier = cfg.tier;
        let seed = cfg.seed;
        let replay_dir = cfg.replay_dir.clone();
        std::thread::spawn(move || {
            let mut last: Vec<(u64, Instant)> = progress.iter().map(|p| (p.ticks.load(Ordering::Relaxed), Instant::now())).collect();
            while !done.load(Ordering::Relaxed) {
                std::thread::sleep(Duration::from_millis(500));
                for (i, p) in progress.iter().enumerate() {
                    let t = p.ticks.load(Ordering::Relaxed);
                    if !p.active.load(Ordering::Relaxed) || t != last[i].0 {
                        last[i] = (t, Instant::now());
                        continue;
                    }
                    if last[i].1.elapsed() >= Duration::from_secs(HANG_SECS) {
                        // Reconstruct the scenario in flight from (seed, run index, sub).
                        let ri = p.run_index.load(Ordering::Relaxed);
                        let sub = p.sub.load(Ordering::Relaxed);
                        let rs = run_seed(seed, world.prop(), ri);
                        let mut rng = Rng::new(rs);
                        let base = world.generate(&mut rng, tier);
                        let scn = world.variant(&base, sub, tier);
                        let path = format!("{}/{}-{:016x}-hang.json", replay_dir, world.prop(), rs);
                        let doc = json!({
                            "property": world.prop(),
                            "class": "hang",
                            "detail": format!("no progress for {HANG_SECS}s inside one library call"),
                            "seed": rs,
                            "run_index": ri,
                            "sub": sub,
                            "minimised": false,
                            "scenario": world.to_json(&scn),
                        });
                        let _ = std::fs::create_dir_all(&replay_dir);
                        let _ = std::fs::write(&path, serde_json::to_string_pretty(&doc).unwrap());
                        println!("VIOLATION property={} replay={}", world.prop(), path);
                        eprintln!("hang: run_index={ri} sub={sub} seed={rs:#x}");
                        std::process::exit(1);
                    }
                }
            }
        })
    };

    let bitmap = Arc::new(Bitmap::new(if cfg.digest_only { 6 } else if cfg.tier == Tier::Thorough { 32 } else { 28 }));
    let mut handles = Vec::new();
    for w in 0..cfg.workers {
        let bitmap = bitmap.clone();
        let world = world.clone();
        let next = next.clone();
        let stop_at = stop_at.clone();
        let progress = progress.clone();
        let found = found.clone();
        let digests = digests.clone();
        let samples = samples.clone();
        let truncated = truncated.clone();
        let tier = cfg.tier;
        let seed = cfg.seed;
        let runs = cfg.runs;
        let first_run = cfg.first_run;
        let seqfind = cfg.seqfind;
        let digest_only = cfg.digest_only;
        let max_wall = Duration::from_secs(cfg.max_wall_s);
        handles.push(
            std::thread::Builder::new()
                .stack_size(64 << 20)
                .spawn(move || {
                    let mut cov = Cov::new(true);
                    cov.distinct = Some(bitmap.clone());
                    let prog = &progress[w];
                    let mut local_digests: Vec<(u64, u64)> = Vec::new();
                    loop {
                        let i = next.fetch_add(1, Ordering::Relaxed);
                        if i >= runs || i > stop_at.load(Ordering::Relaxed) {
                            break;
                        }
                        if (i & 0xfff) == 0 && t0.elapsed() > max_wall {
                            truncated.store(true, Ordering::Relaxed);
                            break;
                        }
                        let rs = run_seed(seed, world.prop(), i);
                        let mut rng = Rng::new(rs);
                        prog.run_index.store(i, Ordering::Relaxed);
                        prog.sub.store(0, Ordering::Relaxed);
                        prog.active.store(true, Ordering::Relaxed);
                        prog.tick();
                        let base = world.generate(&mut rng, tier);
                        if i < first_run + 64 {
                            // the first three scenarios whose rendering is reasonably small
                            let mut g = samples.lock().unwrap();
                            if g.len() < 64 {
                                let j = world.to_json(&base);
                                if j.to_string().len() < 20_000 {
                                    g.push((i, j));
                                }
                            }
                        }
                        let out = world.explore(&base, tier, &mut cov, prog);
                        prog.active.store(false, Ordering::Relaxed);
                        cov.executions += 1;
                        if digest_only {
                            local_digests.push((i, out.digest));
                        }
                        if let Some(v) = out.violation {
                            if seqfind {
                                println!("SEQFIND {i} {}", v.class);
                                std::process::exit(1);
                            }
                            stop_at.fetch_min(i, Ordering::Relaxed);
                            found.lock().unwrap().push(Found {
                                run_index: i,
                                seed: rs,
                                violation: v,
                            });
                        }
                    }
                    if digest_only {
                        digests.lock().unwrap().extend(local_digests);
                    }
                    cov
                })
                .expect("spawn worker"),
        );
    }
    let mut cov = Cov::new(true);
    for h in handles {
        match h.join() {
            Ok(c) => cov.merge(c),
            Err(_) => {
                eprintln!("harness error: worker thread died outside the crash monitor");
                std::process::exit(2);
            }
        }
    }
    done.store(true, Ordering::Relaxed);
    let _ = wd.join();

    let mut combined_digest = 0u64;
    if cfg.digest_only {
        let mut d = digests.lock().unwrap().clone();
        d.sort();
        let mut h = crate::rng::Digest::new();
        for (i, x) in &d {
            h.word(*i);
            h.word(*x);
        }
        combined_digest = h.0;
    }

    // Report the violation with the lowest run index (identical for any worker count).
    let mut found = std::mem::take(&mut *found.lock().unwrap());
    found.sort_by_key(|f| f.run_index);
    let known = KnownFindings::load(&cfg.known_findings);
    let mut exit_code = 0;
    let mut violations = 0;
    let mut known_lines: Vec<String> = Vec::new();
    let mut violation_json: Vec<Value> = Vec::new();
    if let Some(f) = found.into_iter().next() {
        let quiet = Progress::default();
        // Minimise: accept a candidate only if the same class persists.
        let (min_scn, min_detail, steps) = minimise(&*world, &f.violation, &quiet);
        let sig = world.signature(&f.violation.class, &min_scn);
        let path = format!("{}/{}-{:016x}.json", cfg.replay_dir, prop, f.seed);
        let doc = json!({
            "property": prop,
            "class": f.violation.class,
            "detail": min_detail,
            "original_detail": f.violation.detail,
            "seed": f.seed,
            "base_seed": cfg.seed,
            "run_index": f.run_index,
            "tier": cfg.tier.name(),
            "minimised": true,
            "shrink_steps": steps,
            "signature": sig,
            "scenario": world.to_json(&min_scn),
            "original_scenario": world.to_json(&f.violation.scn),
        });
        let _ = std::fs::create_dir_all(&cfg.replay_dir);
        if let Err(e) = std::fs::write(&path, serde_json::to_string_pretty(&doc).unwrap()) {
            eprintln!("harness error: cannot write replay {path}: {e}");
            std::process::exit(2);
        }
        // A replay file must reproduce in a FRESH process. It always does when the library's answers
        // depend only on the scenario; it may not when the change under test introduced state that
        // outlives a run (a static, a thread_local): then earlier runs of the same worker are part of the
        // cause. Fall back, in order: the unminimised scenario; then a contiguous sequence of runs
        // executed in one thread, found by a single-worker re-run in a child process and shortened by
        // doubling the window from the violating run backwards.
        let mut min_detail = min_detail;
        if !cfg.seqfind && !child_reproduces(&path) {
            let mut doc2 = doc.clone();
            doc2["scenario"] = world.to_json(&f.violation.scn);
            doc2["minimised"] = json!(false);
            doc2["note"] = json!("the minimised scenario did not reproduce in a fresh process; this is the scenario as found");
            let _ = std::fs::write(&path, serde_json::to_string_pretty(&doc2).unwrap());
            if !child_reproduces(&path) {
                match sequence_replay(&*world, cfg, f.run_index, &path) {
                    Some(note) => min_detail = format!("{min_detail} [{note}]"),
                    None => {
                        min_detail = format!("{min_detail} [WARNING: found in-process but not reproducible in a fresh process, neither alone nor as a single-threaded sequence of runs: the library keeps state across runs and threads]");
                        let _ = std::fs::write(&path, serde_json::to_string_pretty(&doc2).unwrap());
                    }
                }
            }
        }
        if let Some(desc) = known.matches(prop, &sig) {
            known_lines.push(format!("KNOWN-FINDING: property={prop} signature={sig} {desc}"));
        } else {
            violations += 1;
            exit_code = 1;
            println!("VIOLATION property={} replay={}", prop, path);
            println!(
                "  class={} signature={} run_index={} seed={:#x}\n  {}",
                f.violation.class, sig, f.run_index, f.seed, min_detail
            );
        }
        violation_json.push(json!({"class": f.violation.class, "signature": sig, "replay": path, "detail": min_detail}));
    }
    for l in &known_lines {
        println!("{l}");
    }

    let wall = t0.elapsed().as_secs_f64();
    let distinct_count = bitmap.count();
    if let Some(path) = &cfg.evidence_path {
        let mut samples = std::mem::take(&mut *samples.lock().unwrap());
        samples.sort_by_key(|(i, _)| *i);
        let mut coverage = Map::new();
        coverage.insert("evaluations".into(), json!(cov.executions));
        coverage.insert("distinct_nontrivial".into(), json!(distinct_count));
        coverage.insert(
            "distinct_counting".into(),
            json!(format!("bitmap of {} bits indexed by a mix of the case hash: colliding cases count once, so the figure is a lower bound (expected undercount about {:.2}%)", bitmap.capacity(), 50.0 * distinct_count as f64 / bitmap.capacity() as f64)),
        );
        coverage.insert("rule".into(), json!(world.rule()));
        coverage.insert(
            "samples".into(),
            Value::Array(samples.into_iter().take(3).map(|(_, v)| v).collect()),
        );
        coverage.insert("events_executed".into(), json!(cov.events));
        coverage.insert("discarded_runs".into(), json!(cov.discards));
        coverage.insert(
            "runs_per_hour".into(),
            json!(((cov.executions as f64) / wall.max(1e-9) * 3600.0) as u64),
        );
        coverage.insert("seeds".into(), json!(format!("run i uses splitmix64(VERIF_SEED ^ fnv1a(\"{prop}\") ^ i*phi), i in 0..{}", cov.executions)));
        coverage.insert("simulated_time".into(), json!("not applicable: the crate has no clock, timer or deadline; progress is measured in logical events (events_executed)"));
        coverage.insert("workers".into(), json!(cfg.workers));
        coverage.insert("truncated_by_wall_clock_cap".into(), json!(truncated.load(Ordering::Relaxed)));
        let mut counters = Map::new();
        for (k, v) in &cov.counters {
            counters.insert((*k).to_string(), json!(v));
        }
        coverage.insert("counters".into(), Value::Object(counters));
        coverage.insert("real_vs_stub".into(), world.real_vs_stub());
        coverage.insert("violations_detail".into(), Value::Array(violation_json));
        coverage.insert("known_findings_matched".into(), json!(known_lines));
        world.extra_coverage(&cov, &mut coverage);
        let mut total_violations = violations;
        if let Some(part) = &cfg.merge_part {
            match std::fs::read_to_string(part).ok().and_then(|t| serde_json::from_str::<Value>(&t).ok()) {
                Some(p) => {
                    let pc = p.get("coverage").cloned().unwrap_or(Value::Null);
                    let g = |k: &str| pc.get(k).and_then(|x| x.as_u64()).unwrap_or(0);
                    let ev = coverage.get("evaluations").and_then(|x| x.as_u64()).unwrap_or(0) + g("evaluations");
                    let di = coverage.get("distinct_nontrivial").and_then(|x| x.as_u64()).unwrap_or(0) + g("distinct_nontrivial");
                    let ee = coverage.get("events_executed").and_then(|x| x.as_u64()).unwrap_or(0) + g("events_executed");
                    coverage.insert("evaluations".into(), json!(ev));
                    coverage.insert("distinct_nontrivial".into(), json!(di));
                    coverage.insert("events_executed".into(), json!(ee));
                    coverage.insert("evaluations_note".into(), json!("sum over the default-features build and the borsh build (the build is part of a case's identity)"));
                    total_violations += p.get("violations").and_then(|x| x.as_i64()).unwrap_or(0);
                    coverage.insert("borsh_build".into(), pc);
                }
                None => {
                    eprintln!("harness error: cannot read evidence part {part}");
                    std::process::exit(2);
                }
            }
        }
        let violations = total_violations;
        let doc = json!({
            "property_id": prop,
            "tier": cfg.tier.name(),
            "seed": cfg.seed,
            "level": world.level(),
            "coverage": Value::Object(coverage),
            "assumptions": world.assumptions(),
            "wall_s": wall,
            "violations": violations,
        });
        if let Some(dir) = std::path::Path::new(path).parent() {
            let _ = std::fs::create_dir_all(dir);
        }
        if let Err(e) = std::fs::write(path, serde_json::to_string_pretty(&doc).unwrap()) {
            eprintln!("harness error: cannot write evidence {path}: {e}");
            std::process::exit(2);
        }
    }
    eprintln!(
        "[{prop}] tier={} seed={} runs={} events={} distinct={} wall={:.1}s exit={}",
        cfg.tier.name(),
        cfg.seed,
        cov.executions,
        cov.events,
        distinct_count,
        wall,
        exit_code
    );
    RunReport {
        exit_code,
        combined_digest,
    }
}

fn child_status(args: &[&str]) -> (i32, String) {
    let exe = match std::env::current_exe() {
        Ok(e) => e,
        Err(_) => return (2, String::new()),
    };
    match std::process::Command::new(exe).args(args).stderr(std::process::Stdio::null()).output() {
        Ok(o) => (o.status.code().unwrap_or(134), String::from_utf8_lossy(&o.stdout).into_owned()),
        Err(_) => (2, String::new()),
    }
}

/// Does `pwsim replay <path>` report the violation in a fresh process? (exit 1, or an abnormal
/// termination for abort-class replays)
fn child_reproduces(path: &str) -> bool {
    let (code, _) = child_status(&["replay", path]);
    code == 1 || code > 2
}

/// The library under test keeps state across runs: find a single-threaded contiguous sequence of runs
/// whose last run violates the property, shorten it, write it to `path` as a sequence replay.
fn sequence_replay<W: World>(world: &W, cfg: &RunConfig, _found_at: u64, path: &str) -> Option<String> {
    let prop = world.prop();
    let seed = cfg.seed.to_string();
    // the whole batch on ONE worker: with state that outlives runs, which run trips first depends on what
    // each thread executed before, so the 16-worker index is no guide
    let runs = cfg.runs.to_string();
    let (code, out) = child_status(&["seqfind", "--prop", prop, "--tier", cfg.tier.name(), "--seed", &seed, "--runs", &runs, "--workers", "1"]);
    if code != 1 {
        return None;
    }
    let line = out.lines().find(|l| l.starts_with("SEQFIND "))?;
    let mut it = line.split_whitespace().skip(1);
    let j: u64 = it.next()?.parse().ok()?;
    let class = it.next().unwrap_or("").to_string();
    let last_scenario = {
        let mut r = Rng::new(run_seed(cfg.seed, prop, j));
        world.to_json(&world.generate(&mut r, cfg.tier))
    };
    let write = |from: u64| {
        let doc = json!({
            "property": prop,
            "class": class,
            "detail": "the violation depends on state the library keeps ACROSS runs (a static or thread-local introduced by the change under test): replay executes runs `from..=to` of the seeded batch in one thread, in order; the last one violates the property",
            "base_seed": cfg.seed,
            "tier": cfg.tier.name(),
            "minimised": true,
            "sequence": {"from": from, "to": j},
            "last_scenario": last_scenario.clone(),
        });
        let _ = std::fs::write(path, serde_json::to_string_pretty(&doc).unwrap());
    };
    // shortest window (by doubling) ending at j that still reproduces in a fresh process
    let mut len = 1u64;
    loop {
        let from = j.saturating_sub(len - 1);
        write(from);
        if child_reproduces(path) {
            return Some(format!("depends on library state that outlives a run: replay is the single-threaded sequence of runs {from}..={j}"));
        }
        if from == 0 {
            return None;
        }
        len *= 2;
    }
}

/// Index ranges to try deleting from a list of `len` elements when minimising: halves, quarters, ...,
/// single elements, but never more than a bounded number of ranges per level for long lists (every
/// candidate is a full clone of the scenario; a 65 537-segment function must not yield 65 537 clones).
pub fn removal_ranges(len: usize) -> Vec<(usize, usize)> {
    let mut out = Vec::new();
    if len == 0 {
        return out;
    }
    let per_level = if len > 4096 { 8 } else if len > 256 { 32 } else { usize::MAX };
    let mut chunk = (len / 2).max(1);
    loop {
        let pieces = len.div_ceil(chunk);
        for p in 0..pieces {
            // for long lists only the first and last ranges of a level
            if pieces > per_level && p >= per_level / 2 && p < pieces - per_level / 2 {
                continue;
            }
            out.push((p * chunk, ((p + 1) * chunk).min(len)));
        }
        if chunk == 1 {
            break;
        }
        chunk /= 2;
    }
    out
}

/// Greedy delta-debugging driven by the world's candidate generator.
pub fn minimise<W: World>(world: &W, v: &Violation<W::Scn>, prog: &Progress) -> (W::Scn, String, u64) {
    let mut cur = v.scn.clone();
    let mut detail = v.detail.clone();
    let mut steps = 0u64;
    let mut cov = Cov::new(false);
    let deadline = Instant::now() + Duration::from_secs(60);
    'outer: loop {
        if Instant::now() > deadline {
            break;
        }
        for cand in world.shrink(&cur) {
            if let Some((class, d)) = world.check(&cand, &mut cov, prog) {
                if class == v.class {
                    cur = cand;
                    detail = d;
                    steps += 1;
                    continue 'outer;
                }
            }
            if Instant::now() > deadline {
                break 'outer;
            }
        }
        break;
    }
    (cur, detail, steps)
}

/// Replay an explicit scenario from a replay file. Exit 1 iff the violation reproduces.
pub fn replay_world<W: World>(world: Arc<W>, doc: &Value) -> i32 {
    if let Some(seq) = doc.get("sequence") {
        // a contiguous sequence of seeded runs executed in this one thread, in order
        let (Some(from), Some(to), Some(base)) = (
            seq.get("from").and_then(|x| x.as_u64()),
            seq.get("to").and_then(|x| x.as_u64()),
            doc.get("base_seed").and_then(|x| x.as_u64()),
        ) else {
            eprintln!("harness error: malformed sequence replay");
            return 2;
        };
        let tier = if doc.get("tier").and_then(|t| t.as_str()) == Some("thorough") { Tier::Thorough } else { Tier::Quick };
        let prog = Progress::default();
        let mut cov = Cov::new(false);
        let mut last = None;
        for i in from..=to {
            let mut rng = Rng::new(run_seed(base, world.prop(), i));
            let scn = world.generate(&mut rng, tier);
            last = world.explore(&scn, tier, &mut cov, &prog).violation;
        }
        return match last {
            Some(v) => {
                println!("REPRODUCED property={} class={} (sequence of runs {from}..={to})\n  {}", world.prop(), v.class, v.detail);
                1
            }
            None => {
                println!("NOT-REPRODUCED property={} (sequence of runs {from}..={to})", world.prop());
                0
            }
        };
    }
    let scn = match doc.get("scenario").ok_or("missing scenario".to_string()).and_then(|s| world.from_json(s)) {
        Ok(s) => s,
        Err(e) => {
            eprintln!("harness error: malformed replay file: {e}");
            return 2;
        }
    };
    let want_class = doc.get("class").and_then(|c| c.as_str()).unwrap_or("").to_string();
    // Hang supervision for replays too.
    let prog = Arc::new(Progress::default());
    let done = Arc::new(AtomicBool::new(false));
    {
        let prog = prog.clone();
        let done = done.clone();
        let prop = world.prop();
        std::thread::spawn(move || {
            let mut last = (prog.ticks.load(Ordering::Relaxed), Instant::now());
            while !done.load(Ordering::Relaxed) {
                std::thread::sleep(Duration::from_millis(200));
                let t = prog.ticks.load(Ordering::Relaxed);
                if t != last.0 {
                    last = (t, Instant::now());
                } else if last.1.elapsed() >= Duration::from_secs(HANG_SECS) {
                    println!("REPRODUCED property={prop} class=hang");
                    std::process::exit(1);
                }
            }
        });
    }
    let mut cov = Cov::new(false);
    let r = world.check(&scn, &mut cov, &prog);
    done.store(true, Ordering::Relaxed);
    match r {
        Some((class, detail)) => {
            println!("REPRODUCED property={} class={} (recorded class={})", world.prop(), class, want_class);
            println!("  {detail}");
            1
        }
        None => {
            println!("NOT-REPRODUCED property={} (recorded class={})", world.prop(), want_class);
            0
        }
    }
}

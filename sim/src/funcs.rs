//! Function specifications: how a `Piecewise<T>` under test is produced — directly
//! from generated segments, or by the library itself (`linear`, `constrained_spline`,
//! scalar operators, `&f + &g`, `&f - &g`, `derivative`, `integral`, `indefinite`),
//! so that every public constructor and operator runs under the crash monitor.

use crate::engine::*;
use crate::pieces::*;
use crate::rng::Rng;
use crate::with_kind;
use piecewise_polynomial::*;
use serde_json::{json, Value};

#[derive(Clone, Copy, Debug, PartialEq, Eq)]
pub enum Source {
    Direct,
    /// `linear(knots)` with knots `(ends[i], coefs[i][0])`; kind is Poly1.
    Linear,
    /// `constrained_spline(knots)`; kind is Poly3.
    Spline,
}

#[derive(Clone, Copy, Debug, PartialEq)]
pub enum Op {
    Scale(f64),
    ScaleAssign(f64),
    Neg,
    Translate(f64),
}

#[derive(Clone, Copy, Debug, PartialEq)]
pub enum Post {
    None,
    Derivative,
    Integral(f64, f64),
    Indefinite,
}

#[derive(Clone, Debug)]
pub struct Other {
    pub sub: bool,
    pub ends: Vec<f64>,
    pub coefs: Vec<Vec<f64>>,
}

#[derive(Clone, Debug)]
pub struct FuncSpec {
    pub kind: Kind,
    pub ends: Vec<f64>,
    pub coefs: Vec<Vec<f64>>,
    pub source: Source,
    /// `&f + &other` / `&f - &other` (IntOfLogPoly4 pieces only), applied right after the source.
    pub other: Option<Other>,
    pub ops: Vec<Op>,
    pub post: Post,
}

/// Operators that exist only for some piece types, behind one trait with "unsupported" defaults.
pub trait PwOps: Piece {
    fn from_source(spec: &FuncSpec) -> Piecewise<Self> {
        build_piecewise::<Self>(&spec.ends, &spec.coefs)
    }
    fn pw_scale(_f: Piecewise<Self>, _s: f64) -> Result<Piecewise<Self>, Piecewise<Self>> {
        Err(_f)
    }
    fn pw_scale_assign(_f: &mut Piecewise<Self>, _s: f64) -> bool {
        false
    }
    fn pw_neg(_f: Piecewise<Self>) -> Result<Piecewise<Self>, Piecewise<Self>> {
        Err(_f)
    }
    fn pw_translate(f: &mut Piecewise<Self>, c: f64);
    fn pw_derivative(_f: &Piecewise<Self>) -> Option<Box<dyn Target>> {
        None
    }
    fn pw_integral(_f: &Piecewise<Self>, _k: Knot) -> Option<Box<dyn Target>> {
        None
    }
    fn pw_indefinite(_f: &Piecewise<Self>) -> Option<Box<dyn Target>> {
        None
    }
    fn pw_addsub(_f: &Piecewise<Self>, _g: &Piecewise<Self>, _sub: bool) -> Option<Piecewise<Self>> {
        None
    }
    // The operation battery (C16's "every operation returns without panicking"): each group calls the
    // piece-, segment- and piecewise-level operations that exist for the type and returns how many it made.
    fn bat_common(f: &Piecewise<Self>, x: f64, c: f64) -> u64;
    fn bat_scale(_f: &Piecewise<Self>, _s: f64) -> u64 {
        0
    }
    fn bat_scale_assign(_f: &Piecewise<Self>, _s: f64) -> u64 {
        0
    }
    fn bat_neg(_f: &Piecewise<Self>) -> u64 {
        0
    }
    fn bat_add(_f: &Piecewise<Self>) -> u64 {
        0
    }
    fn bat_deriv(_f: &Piecewise<Self>, _x: f64) -> u64 {
        0
    }
    fn bat_integ(_f: &Piecewise<Self>, _k: Knot, _x: f64) -> u64 {
        0
    }
}

macro_rules! b_common {
    () => {
        fn bat_common(f: &Piecewise<Self>, x: f64, c: f64) -> u64 {
            use approx::{AbsDiffEq, RelativeEq};
            let mut g = f.clone();
            let _ = g == *f;
            let _ = f.abs_diff_eq(&g, 1e-9);
            let _ = f.relative_eq(&g, 1e-9, 1e-9);
            g.translate(c);
            let _ = f.abs_diff_eq(&g, f64::default_epsilon());
            // different lengths must simply compare unequal
            let mut h = f.clone();
            h.segments.pop();
            let _ = f.abs_diff_eq(&h, 1e-9);
            let _ = f.relative_eq(&h, 1e-9, 1e-9);
            let _ = h == *f;
            let mut n = 8;
            if let Some(s) = f.segments.first() {
                let mut s2 = s.clone();
                let _ = s2.evaluate(x);
                s2.translate(c);
                let _ = s.abs_diff_eq(&s2, 1e-9);
                let _ = s.relative_eq(&s2, 1e-9, 1e-9);
                let mut p = s.poly.clone();
                let _ = p.evaluate(x);
                p.translate(c);
                let _ = p.abs_diff_eq(&s.poly, 1e-9);
                let _ = p.relative_eq(&s.poly, 1e-9, 1e-9);
                let _ = p == s.poly;
                n += 9;
            }
            n
        }
    };
}
macro_rules! b_scale {
    () => {
        fn bat_scale(f: &Piecewise<Self>, s: f64) -> u64 {
            match f.segments.first() {
                Some(seg) => {
                    let _ = seg.poly * s;
                    let _ = *seg * s;
                    2
                }
                None => 0,
            }
        }
    };
}
macro_rules! b_scale_assign {
    () => {
        fn bat_scale_assign(f: &Piecewise<Self>, s: f64) -> u64 {
            match f.segments.first() {
                Some(seg) => {
                    let mut p = seg.poly;
                    p *= s;
                    let mut sg = *seg;
                    sg *= s;
                    let mut r = &mut sg;
                    r *= s;
                    3
                }
                None => 0,
            }
        }
    };
}
macro_rules! b_neg {
    () => {
        fn bat_neg(f: &Piecewise<Self>) -> u64 {
            match f.segments.first() {
                Some(seg) => {
                    let _ = -seg.poly;
                    1
                }
                None => 0,
            }
        }
    };
}
macro_rules! b_add {
    () => {
        fn bat_add(f: &Piecewise<Self>) -> u64 {
            match (f.segments.first(), f.segments.last()) {
                (Some(a), Some(b)) => {
                    let _ = a.poly + b.poly;
                    1
                }
                _ => 0,
            }
        }
    };
}
macro_rules! b_deriv {
    () => {
        fn bat_deriv(f: &Piecewise<Self>, x: f64) -> u64 {
            match f.segments.first() {
                Some(seg) => {
                    let _ = seg.poly.derivative().evaluate(x);
                    let _ = seg.derivative().evaluate(x);
                    2
                }
                None => 0,
            }
        }
    };
}
macro_rules! b_integ {
    () => {
        fn bat_integ(f: &Piecewise<Self>, k: Knot, x: f64) -> u64 {
            let mut n = 0;
            if let Some(seg) = f.segments.first() {
                let _ = seg.poly.indefinite().evaluate(x);
                let _ = seg.poly.integral(k).evaluate(x);
                let _ = seg.indefinite().evaluate(x);
                let _ = seg.integral(k).evaluate(x);
                n += 4;
            }
            let _ = Segment::integral_iter(f.segments.clone(), k).count();
            let _ = Segment::integral_iter_ref(f.segments.iter(), k).last();
            n + 2
        }
    };
}

macro_rules! m_scale {
    () => {
        fn pw_scale(f: Piecewise<Self>, s: f64) -> Result<Piecewise<Self>, Piecewise<Self>> {
            Ok(f * s)
        }
    };
}
macro_rules! m_scale_assign {
    () => {
        fn pw_scale_assign(f: &mut Piecewise<Self>, s: f64) -> bool {
            *f *= s;
            true
        }
    };
}
macro_rules! m_neg {
    () => {
        fn pw_neg(f: Piecewise<Self>) -> Result<Piecewise<Self>, Piecewise<Self>> {
            Ok(-f)
        }
    };
}
macro_rules! m_translate {
    () => {
        fn pw_translate(f: &mut Piecewise<Self>, c: f64) {
            f.translate(c);
        }
    };
}
macro_rules! m_deriv {
    () => {
        fn pw_derivative(f: &Piecewise<Self>) -> Option<Box<dyn Target>> {
            Some(Box::new(f.derivative()))
        }
    };
}
macro_rules! m_integ {
    () => {
        fn pw_integral(f: &Piecewise<Self>, k: Knot) -> Option<Box<dyn Target>> {
            Some(Box::new(f.integral(k)))
        }
        fn pw_indefinite(f: &Piecewise<Self>) -> Option<Box<dyn Target>> {
            Some(Box::new(f.indefinite()))
        }
    };
}

fn knots_of(spec: &FuncSpec) -> Vec<Knot> {
    spec.ends
        .iter()
        .zip(spec.coefs.iter())
        .map(|(&x, c)| Knot::new(x, c.first().copied().unwrap_or(0.0)))
        .collect()
}

impl PwOps for Poly0 { m_scale!(); m_scale_assign!(); m_neg!(); m_translate!(); m_deriv!(); m_integ!(); b_common!(); b_scale!(); b_scale_assign!(); b_neg!(); b_add!(); b_deriv!(); b_integ!(); }
impl PwOps for Poly1 {
    fn from_source(spec: &FuncSpec) -> Piecewise<Self> {
        match spec.source {
            Source::Linear => linear(&knots_of(spec)),
            _ => build_piecewise::<Self>(&spec.ends, &spec.coefs),
        }
    }
    m_scale!(); m_scale_assign!(); m_neg!(); m_translate!(); m_deriv!(); m_integ!();
    b_common!(); b_scale!(); b_scale_assign!(); b_neg!(); b_add!(); b_deriv!(); b_integ!();
}
impl PwOps for Poly2 { m_scale!(); m_scale_assign!(); m_neg!(); m_translate!(); m_deriv!(); m_integ!(); b_common!(); b_scale!(); b_scale_assign!(); b_neg!(); b_add!(); b_deriv!(); b_integ!(); }
impl PwOps for Poly3 {
    fn from_source(spec: &FuncSpec) -> Piecewise<Self> {
        match spec.source {
            Source::Spline => constrained_spline(&knots_of(spec)),
            _ => build_piecewise::<Self>(&spec.ends, &spec.coefs),
        }
    }
    m_scale!(); m_scale_assign!(); m_neg!(); m_translate!(); m_deriv!(); m_integ!();
    b_common!(); b_scale!(); b_scale_assign!(); b_neg!(); b_add!(); b_deriv!(); b_integ!();
}
impl PwOps for Poly4 { m_scale!(); m_scale_assign!(); m_neg!(); m_translate!(); m_deriv!(); m_integ!(); b_common!(); b_scale!(); b_scale_assign!(); b_neg!(); b_add!(); b_deriv!(); b_integ!(); }
impl PwOps for Poly5 { m_scale!(); m_scale_assign!(); m_neg!(); m_translate!(); m_deriv!(); m_integ!(); b_common!(); b_scale!(); b_scale_assign!(); b_neg!(); b_add!(); b_deriv!(); b_integ!(); }
impl PwOps for Poly6 { m_scale!(); m_scale_assign!(); m_neg!(); m_translate!(); m_deriv!(); m_integ!(); b_common!(); b_scale!(); b_scale_assign!(); b_neg!(); b_add!(); b_deriv!(); b_integ!(); }
impl PwOps for Poly7 { m_scale!(); m_scale_assign!(); m_neg!(); m_translate!(); m_deriv!(); m_integ!(); b_common!(); b_scale!(); b_scale_assign!(); b_neg!(); b_add!(); b_deriv!(); b_integ!(); }
impl PwOps for Poly8 { m_scale!(); m_scale_assign!(); m_neg!(); m_translate!(); m_deriv!(); b_common!(); b_scale!(); b_scale_assign!(); b_neg!(); b_add!(); b_deriv!(); }
impl PwOps for PolyN { m_translate!(); b_common!(); }
impl PwOps for UserPiece {
    m_translate!();
    fn bat_common(_f: &Piecewise<Self>, _x: f64, _c: f64) -> u64 {
        0
    }
}
impl PwOps for Piecewise<Poly0> {
    m_translate!();
    m_scale_assign!();
    m_deriv!();
    b_common!();
}

macro_rules! log_ops {
    ($($p:ident),*) => { $(
        impl PwOps for Log<$p> { m_scale!(); m_scale_assign!(); m_translate!(); m_integ!(); b_common!(); b_scale!(); b_scale_assign!(); b_integ!(); }
        impl PwOps for IntOfLog<$p> { m_scale!(); m_scale_assign!(); m_neg!(); m_translate!(); b_common!(); b_scale!(); b_scale_assign!(); b_neg!(); b_add!(); }
    )* };
}
log_ops!(Poly0, Poly1, Poly2, Poly3, Poly4, Poly5, Poly6, Poly7, Poly8);

impl PwOps for IntOfLogPoly4 {
    m_scale!();
    m_neg!();
    m_translate!();
    b_common!();
    b_scale!();
    b_neg!();
    fn bat_add(f: &Piecewise<Self>) -> u64 {
        match (f.segments.first(), f.segments.last()) {
            (Some(a), Some(b)) => {
                let _ = a.poly + b.poly;
                let _ = a.poly - b.poly;
                let _ = &a.poly + &b.poly;
                let _ = &a.poly - &b.poly;
                4
            }
            _ => 0,
        }
    }
    fn pw_addsub(f: &Piecewise<Self>, g: &Piecewise<Self>, sub: bool) -> Option<Piecewise<Self>> {
        Some(if sub { f - g } else { f + g })
    }
}

pub fn supports_scale(k: Kind) -> bool {
    !matches!(k, Kind::N | Kind::W | Kind::U)
}
pub fn supports_scale_assign(k: Kind) -> bool {
    !matches!(k, Kind::N | Kind::Q | Kind::U)
}
pub fn supports_neg(k: Kind) -> bool {
    matches!(k, Kind::P(_) | Kind::I(_) | Kind::Q)
}
pub fn supports_derivative(k: Kind) -> bool {
    matches!(k, Kind::P(_) | Kind::W)
}
pub fn supports_integral(k: Kind) -> bool {
    matches!(k, Kind::P(0..=7) | Kind::L(_))
}

fn build_typed<T: PwOps>(spec: &FuncSpec, cov: &mut Cov) -> Box<dyn Target> {
    let mut f: Piecewise<T> = T::from_source(spec);
    match spec.source {
        Source::Direct => cov.hit("op_direct_construction"),
        Source::Linear => cov.hit("op_linear"),
        Source::Spline => cov.hit("op_constrained_spline"),
    }
    if let Some(o) = &spec.other {
        let g = build_piecewise::<T>(&o.ends, &o.coefs);
        if let Some(h) = T::pw_addsub(&f, &g, o.sub) {
            cov.hit(if o.sub { "op_piecewise_sub" } else { "op_piecewise_add" });
            f = h;
        }
    }
    for op in &spec.ops {
        match *op {
            Op::Scale(s) => {
                f = match T::pw_scale(f, s) {
                    Ok(g) => {
                        cov.hit("op_piecewise_mul");
                        g
                    }
                    Err(g) => g,
                }
            }
            Op::ScaleAssign(s) => {
                if T::pw_scale_assign(&mut f, s) {
                    cov.hit("op_piecewise_mul_assign");
                }
            }
            Op::Neg => {
                f = match T::pw_neg(f) {
                    Ok(g) => {
                        cov.hit("op_piecewise_neg");
                        g
                    }
                    Err(g) => g,
                }
            }
            Op::Translate(c) => {
                T::pw_translate(&mut f, c);
                cov.hit("op_piecewise_translate");
            }
        }
    }
    match spec.post {
        Post::None => Box::new(f),
        Post::Derivative => match T::pw_derivative(&f) {
            Some(t) => {
                cov.hit("op_piecewise_derivative");
                t
            }
            None => Box::new(f),
        },
        Post::Integral(x, y) => match T::pw_integral(&f, Knot::new(x, y)) {
            Some(t) => {
                cov.hit("op_piecewise_integral");
                t
            }
            None => Box::new(f),
        },
        Post::Indefinite => match T::pw_indefinite(&f) {
            Some(t) => {
                cov.hit("op_piecewise_indefinite");
                t
            }
            None => Box::new(f),
        },
    }
}

fn battery_typed<T: PwOps>(spec: &FuncSpec, x: f64, c: f64) -> u64 {
    let f: Piecewise<T> = build_piecewise::<T>(&spec.ends, &spec.coefs);
    let k = Knot::new(if matches!(spec.kind, Kind::L(_)) { x.abs().max(1e-3) } else { x }, c);
    T::bat_common(&f, x, c) + T::bat_scale(&f, c) + T::bat_scale_assign(&f, c) + T::bat_neg(&f) + T::bat_add(&f) + T::bat_deriv(&f, x) + T::bat_integ(&f, k, x)
}

/// Run the operation battery on the directly-built form of a spec (piece-, segment- and piecewise-level
/// operations that have no other caller in the worlds), under the crash monitor. Returns the number of
/// library operations executed, or the panic message.
pub fn ops_battery(spec: &FuncSpec, x: f64, c: f64) -> Result<u64, String> {
    if spec.ends.is_empty() || spec.ends.len() > 300 {
        return Ok(0);
    }
    guard(|| with_kind!(spec.kind, T => battery_typed::<T>(spec, x, c)))
}

/// Build the function a spec describes; every library call inside runs under the crash monitor.
pub fn build_func(spec: &FuncSpec, cov: &mut Cov) -> Result<Box<dyn Target>, String> {
    guard(|| with_kind!(spec.kind, T => build_typed::<T>(spec, cov)))
}

impl FuncSpec {
    pub fn is_direct(&self) -> bool {
        self.source == Source::Direct && self.other.is_none()
    }

    pub fn describe(&self) -> String {
        format!(
            "{:?} {} with {} ends, ops {:?}, post {:?}{}",
            self.source,
            self.kind.name(),
            self.ends.len(),
            self.ops,
            self.post,
            if self.other.is_some() { ", combined with a second function" } else { "" }
        )
    }

    /// The breakpoints the generator steers by (exact for direct sources).
    pub fn steering_ends(&self) -> Vec<f64> {
        let mut e: Vec<f64> = match self.source {
            Source::Direct => self.ends.clone(),
            Source::Linear => {
                let mut m = self.ends[0];
                self.ends[1..]
                    .iter()
                    .map(|&x| {
                        m = m.max(x);
                        m
                    })
                    .collect()
            }
            Source::Spline => self.ends[1..].to_vec(),
        };
        if let Some(o) = &self.other {
            e.extend(o.ends.iter().copied());
            e.sort_by(|a, b| a.partial_cmp(b).unwrap_or(std::cmp::Ordering::Equal));
        }
        if e.is_empty() {
            e.push(0.0);
        }
        e
    }

    pub fn to_json(&self) -> Value {
        json!({
            "source": match self.source { Source::Direct => "direct", Source::Linear => "linear(knots)", Source::Spline => "constrained_spline(knots)" },
            "piece_type": self.kind.name(),
            "ends": fj_list(&self.ends),
            "coefficients": self.coefs.iter().map(|c| fj_list(c)).collect::<Vec<_>>(),
            "combine": match &self.other {
                None => Value::Null,
                Some(o) => json!({"op": if o.sub {"sub"} else {"add"}, "ends": fj_list(&o.ends), "coefficients": o.coefs.iter().map(|c| fj_list(c)).collect::<Vec<_>>()}),
            },
            "ops": self.ops.iter().map(|op| match *op {
                Op::Scale(s) => json!({"op": "mul", "s": fj(s)}),
                Op::ScaleAssign(s) => json!({"op": "mul_assign", "s": fj(s)}),
                Op::Neg => json!({"op": "neg"}),
                Op::Translate(c) => json!({"op": "translate", "s": fj(c)}),
            }).collect::<Vec<_>>(),
            "post": match self.post {
                Post::None => json!("none"),
                Post::Derivative => json!("derivative"),
                Post::Indefinite => json!("indefinite"),
                Post::Integral(x, y) => json!({"integral_knot": [fj(x), fj(y)]}),
            },
        })
    }

    pub fn from_json(v: &Value) -> Result<FuncSpec, String> {
        let source = match jstr(v, "source")? {
            "direct" => Source::Direct,
            "linear(knots)" => Source::Linear,
            "constrained_spline(knots)" => Source::Spline,
            s => return Err(format!("bad source {s}")),
        };
        let kind = Kind::parse(jstr(v, "piece_type")?)?;
        let ends = jf_list(v.get("ends").ok_or("missing ends")?)?;
        let coefs = v
            .get("coefficients")
            .and_then(|c| c.as_array())
            .ok_or("missing coefficients")?
            .iter()
            .map(jf_list)
            .collect::<Result<Vec<_>, _>>()?;
        if coefs.len() != ends.len() {
            return Err("coefficients/ends length mismatch".into());
        }
        let check_nc = |coefs: &Vec<Vec<f64>>| -> Result<(), String> {
            if kind.nc() != 0 && coefs.iter().any(|c| c.len() != kind.nc()) {
                return Err(format!("{} needs {} numbers per piece", kind.name(), kind.nc()));
            }
            Ok(())
        };
        check_nc(&coefs)?;
        match source {
            Source::Linear if kind != Kind::P(1) => return Err("linear source needs Poly1".into()),
            Source::Spline if kind != Kind::P(3) => return Err("spline source needs Poly3".into()),
            _ => {}
        }
        let other = match v.get("combine") {
            None | Some(Value::Null) => None,
            Some(o) => {
                let oc = o
                    .get("coefficients")
                    .and_then(|c| c.as_array())
                    .ok_or("missing combine.coefficients")?
                    .iter()
                    .map(jf_list)
                    .collect::<Result<Vec<_>, _>>()?;
                check_nc(&oc)?;
                let oe = jf_list(o.get("ends").ok_or("missing combine.ends")?)?;
                if oe.len() != oc.len() {
                    return Err("combine length mismatch".into());
                }
                Some(Other {
                    sub: jstr(o, "op")? == "sub",
                    ends: oe,
                    coefs: oc,
                })
            }
        };
        let ops = v
            .get("ops")
            .and_then(|o| o.as_array())
            .map(|a| {
                a.iter()
                    .map(|o| {
                        let s = || jf(o.get("s").ok_or("missing s")?);
                        Ok(match jstr(o, "op")? {
                            "mul" => Op::Scale(s()?),
                            "mul_assign" => Op::ScaleAssign(s()?),
                            "neg" => Op::Neg,
                            "translate" => Op::Translate(s()?),
                            x => return Err(format!("bad op {x}")),
                        })
                    })
                    .collect::<Result<Vec<_>, String>>()
            })
            .transpose()?
            .unwrap_or_default();
        let post = match v.get("post") {
            None => Post::None,
            Some(Value::String(s)) => match s.as_str() {
                "none" => Post::None,
                "derivative" => Post::Derivative,
                "indefinite" => Post::Indefinite,
                x => return Err(format!("bad post {x}")),
            },
            Some(o) => {
                let k = o.get("integral_knot").and_then(|k| k.as_array()).ok_or("bad post")?;
                if k.len() != 2 {
                    return Err("bad integral_knot".into());
                }
                Post::Integral(jf(&k[0])?, jf(&k[1])?)
            }
        };
        Ok(FuncSpec { kind, ends, coefs, source, other, ops, post })
    }

    /// Simpler specs to try when minimising.
    pub fn shrink(&self) -> Vec<FuncSpec> {
        let mut out = Vec::new();
        if self.post != Post::None {
            let mut s = self.clone();
            s.post = Post::None;
            out.push(s);
        }
        if !self.ops.is_empty() {
            let mut s = self.clone();
            s.ops.clear();
            out.push(s);
            if self.ops.len() > 1 {
                for i in 0..self.ops.len() {
                    let mut s = self.clone();
                    s.ops.remove(i);
                    out.push(s);
                }
            }
        }
        if self.other.is_some() {
            let mut s = self.clone();
            s.other = None;
            out.push(s);
        }
        if self.source != Source::Direct && self.other.is_none() && self.ops.is_empty() && self.post == Post::None {
            // Materialise what the library produced as a direct function.
            if let Some(m) = self.materialise() {
                out.push(m);
            }
        }
        let min_len = match self.source {
            Source::Direct => 1,
            Source::Linear => 2,
            Source::Spline => 3,
        };
        if self.ends.len() > min_len {
            for (a, b) in removal_ranges(self.ends.len()) {
                if self.ends.len() - (b - a) < min_len {
                    continue;
                }
                let mut s = self.clone();
                s.ends.drain(a..b);
                s.coefs.drain(a..b);
                out.push(s);
            }
        }
        if self.is_direct() && self.ops.is_empty() && self.post == Post::None {
            let tags: Vec<Vec<f64>> = (0..self.ends.len()).map(|i| vec![(i + 1) as f64]).collect();
            if self.kind != Kind::P(0) || self.coefs != tags {
                let mut s = self.clone();
                s.kind = Kind::P(0);
                s.coefs = tags;
                out.push(s);
            }
        }
        out
    }

    fn materialise(&self) -> Option<FuncSpec> {
        let mut cov = Cov::new(false);
        let t = build_func(self, &mut cov).ok()?;
        let kind = t.kind();
        Some(FuncSpec {
            kind,
            ends: (0..t.len()).map(|i| t.end(i)).collect(),
            coefs: (0..t.len()).map(|i| t.coefs(i)).collect(),
            source: Source::Direct,
            other: None,
            ops: vec![],
            post: Post::None,
        })
    }
}

// ---------------------------------------------------------------------------
// Generation
// ---------------------------------------------------------------------------

pub fn gen_len(rng: &mut Rng, allow_long: bool) -> usize {
    // `allow_long` is always on in the thorough tier, which also gets a handful of million-segment functions
    match rng.below(100) {
        0..=9 => 1,
        10..=29 => 2,
        30..=54 => 3,
        55..=74 => 4,
        75..=89 => rng.usize_in(5, 8),
        90..=95 => rng.usize_in(9, 12),
        96..=97 => rng.usize_in(13, 40),
        _ => {
            if allow_long {
                match rng.below(20) {
                    0..=9 => rng.usize_in(50, 200),
                    // thresholds an index type, a chunk size or a bisection fast path could hinge on
                    10..=18 => {
                        let k = rng.usize_in(5, 10) as u32;
                        (1usize << k) + rng.usize_in(0, 2) - 1
                    }
                    _ => *rng.pick(&[4096usize, 65535, 65536, 65537]),
                }
            } else {
                rng.usize_in(5, 12)
            }
        }
    }
}

/// Non-decreasing, non-NaN breakpoints in one of eight patterns.
pub fn gen_ends(rng: &mut Rng, n: usize) -> Vec<f64> {
    let pat = rng.below(16);
    let mut v: Vec<f64> = Vec::with_capacity(n);
    match pat {
        // strictly increasing small integers (the most common shape)
        0..=4 => {
            let mut x = rng.range(-3, 3) as f64;
            for _ in 0..n {
                v.push(x);
                x += rng.range(1, 3) as f64;
            }
        }
        // random increasing floats
        5..=7 => {
            let mut x = rng.uniform(-100.0, 100.0);
            for _ in 0..n {
                v.push(x);
                x += rng.uniform(0.001, 10.0);
            }
        }
        // runs of duplicates
        8..=9 => {
            let mut x = rng.range(-3, 3) as f64;
            for _ in 0..n {
                v.push(x);
                x += *rng.pick(&[0.0, 0.0, 1.0, 2.0]);
            }
        }
        // all equal
        10 => {
            let x = *rng.pick(&[0.0, 1.0, -2.5, 1e10]);
            v.resize(n, x);
        }
        // adjacent floats (1-ulp gaps, some repeats)
        11 => {
            let mut x = *rng.pick(&[1.0, -1.0, 0.1, 1e-300, 123456.789, -0.0]);
            for _ in 0..n {
                v.push(x);
                if rng.chance(3, 4) {
                    x = x.next_up();
                }
            }
        }
        // around +-0.0 and the subnormals
        12 => {
            let zeros: [f64; 2] = if rng.chance(1, 2) { [-0.0, 0.0] } else { [0.0, -0.0] };
            let pool = [-2.0, -1.0, -f64::MIN_POSITIVE, -5e-324, zeros[0], zeros[1], 5e-324, f64::MIN_POSITIVE, 1.0, 2.0];
            v = subsequence(rng, &pool, n);
        }
        // huge / tiny magnitudes
        13 => {
            let pool = [-f64::MAX, -1e300, -1.0, -1e-300, -5e-324, 5e-324, 1e-300, 1.0, 1e300, f64::MAX];
            v = subsequence(rng, &pool, n);
        }
        // infinite extremes (non-decreasing and non-NaN, hence admissible)
        _ => {
            let mut x = rng.range(-3, 3) as f64;
            for _ in 0..n {
                v.push(x);
                x += rng.range(0, 2) as f64;
            }
            if rng.chance(1, 2) {
                v[0] = f64::NEG_INFINITY;
            }
            if rng.chance(2, 3) {
                v[n - 1] = f64::INFINITY;
                if n >= 3 && rng.chance(1, 3) {
                    v[n - 2] = f64::INFINITY;
                }
            }
        }
    }
    v
}

fn subsequence(rng: &mut Rng, pool: &[f64], n: usize) -> Vec<f64> {
    if n > pool.len() {
        // longer than the pool: repeat entries (keeps the order non-decreasing)
        let mut v = Vec::with_capacity(n);
        for i in 0..n {
            v.push(pool[i * pool.len() / n]);
        }
        return v;
    }
    // choose n indices in increasing order
    let mut idx: Vec<usize> = Vec::with_capacity(n);
    let mut need = n;
    for i in 0..pool.len() {
        let left = pool.len() - i;
        if rng.below(left as u64) < need as u64 {
            idx.push(i);
            need -= 1;
            if need == 0 {
                break;
            }
        }
    }
    idx.into_iter().map(|i| pool[i]).collect()
}

pub fn gen_coef(rng: &mut Rng) -> f64 {
    match rng.below(8) {
        0..=3 => rng.range(-3, 3) as f64,
        4..=5 => rng.uniform(-4.0, 4.0),
        6 => rng.range(-8, 8) as f64 * 0.25,
        _ => *rng.pick(&[0.0, -0.0, 1.0, -1.0, 0.5, 100.0, 1e-3]),
    }
}

pub fn gen_coefs(rng: &mut Rng, kind: Kind, i: usize) -> Vec<f64> {
    match kind {
        Kind::P(0) => vec![(i + 1) as f64],
        Kind::U => {
            // rejects +inf, -inf, 0.0 or a small integer (often a breakpoint)
            let reject = match rng.below(5) {
                0 => f64::INFINITY,
                1 => f64::NEG_INFINITY,
                2 => 0.0,
                _ => rng.range(-3, 6) as f64,
            };
            vec![(i + 1) as f64, reject]
        }
        Kind::W => {
            // inner function: two constant pieces around an inner breakpoint
            let e0 = gen_coef(rng);
            vec![e0, (i + 1) as f64 * 16.0, e0 + rng.range(0, 3) as f64, (i + 1) as f64 * 16.0 + 1.0 + gen_coef(rng).abs()]
        }
        Kind::N => {
            let len = rng.usize_in(0, 6);
            let mut c: Vec<f64> = (0..len).map(|_| gen_coef(rng)).collect();
            if let Some(c0) = c.first_mut() {
                *c0 = (i + 1) as f64 * 16.0 + *c0;
            }
            c
        }
        _ => {
            let mut c: Vec<f64> = (0..kind.nc()).map(|_| gen_coef(rng)).collect();
            // make pieces distinguishable through their additive constant
            c[0] = (i + 1) as f64 * 16.0 + c[0];
            c
        }
    }
}

pub fn gen_kind(rng: &mut Rng) -> Kind {
    if rng.chance(1, 2) {
        Kind::P(0)
    } else {
        let all = Kind::all();
        *rng.pick(&all)
    }
}

/// `derived_pct`: share (percent) of functions produced by the library itself rather than directly.
pub fn gen_func(rng: &mut Rng, allow_long: bool, derived_pct: u64) -> FuncSpec {
    let n = gen_len(rng, allow_long);
    let r = rng.below(100);
    if r < derived_pct / 5 {
        // linear(knots): any finite knots, out-of-order abscissae included
        let k = n + 1;
        let ends: Vec<f64> = if rng.chance(2, 3) {
            finite_only(gen_ends(rng, k))
        } else {
            (0..k).map(|_| rng.range(-4, 4) as f64 * *rng.pick(&[1.0, 0.5, 1e-17])).collect()
        };
        let coefs = (0..k).map(|_| vec![gen_coef(rng), 0.0]).collect();
        return with_ops(rng, FuncSpec { kind: Kind::P(1), ends, coefs, source: Source::Linear, other: None, ops: vec![], post: Post::None });
    }
    if r < 2 * derived_pct / 5 {
        // constrained_spline(knots): strictly increasing finite abscissae
        let k = n + 2;
        let mut x = rng.uniform(-10.0, 10.0);
        let ends: Vec<f64> = (0..k)
            .map(|_| {
                let v = x;
                x += rng.uniform(0.01, 5.0);
                v
            })
            .collect();
        let coefs = (0..k).map(|_| vec![gen_coef(rng), 0.0, 0.0, 0.0]).collect();
        return with_ops(rng, FuncSpec { kind: Kind::P(3), ends, coefs, source: Source::Spline, other: None, ops: vec![], post: Post::None });
    }
    // the only piece type with &f + &g and &f - &g; over-sampled where operators are monitored
    let kind = if derived_pct > 40 && rng.chance(1, 8) { Kind::Q } else { gen_kind(rng) };
    let ends = gen_ends(rng, n);
    let coefs: Vec<Vec<f64>> = (0..n).map(|i| gen_coefs(rng, kind, i)).collect();
    let mut spec = FuncSpec { kind, ends, coefs, source: Source::Direct, other: None, ops: vec![], post: Post::None };
    if kind == Kind::Q && rng.chance(1, 2) {
        // &f + &g panics on NaN ends only; +-inf ends are fine but make every merged step trivial
        spec.ends = finite_only(spec.ends);
        let oe = if rng.chance(1, 2) {
            let m = gen_len(rng, false);
            finite_only(gen_ends(rng, m))
        } else {
            // share breakpoints with the first operand: a sub/super-sequence of its ends
            let mut v: Vec<f64> = Vec::new();
            for (i, &e) in spec.ends.iter().enumerate() {
                if rng.chance(1, 4) {
                    let lo = if i > 0 { spec.ends[i - 1] } else { e - 2.0 };
                    let x = lo * 0.5 + e * 0.5;
                    if x.is_finite() && v.last().map_or(true, |&l| l <= x) {
                        v.push(x);
                    }
                }
                if rng.chance(2, 3) {
                    v.push(e);
                }
            }
            if rng.chance(1, 3) || v.is_empty() {
                let last = *spec.ends.last().unwrap();
                let x = last + rng.range(0, 2) as f64;
                v.push(if x.is_finite() { x } else { last });
            }
            v
        };
        let m = oe.len();
        let oc = (0..m).map(|i| gen_coefs(rng, kind, i + 100)).collect();
        spec.other = Some(Other { sub: rng.chance(1, 2), ends: oe, coefs: oc });
    }
    if r < derived_pct {
        spec = with_ops(rng, spec);
    }
    spec
}

fn finite_only(mut v: Vec<f64>) -> Vec<f64> {
    for x in v.iter_mut() {
        if x.is_infinite() {
            *x = if *x > 0.0 { 1e308 } else { -1e308 };
        }
    }
    v
}

fn with_ops(rng: &mut Rng, mut spec: FuncSpec) -> FuncSpec {
    let nops = *rng.pick(&[0usize, 0, 1, 1, 2]);
    for _ in 0..nops {
        let s = *rng.pick(&[2.0, -1.0, 0.5, 0.0, 3.0, -0.25]);
        let op = match rng.below(4) {
            0 if supports_scale(spec.kind) => Op::Scale(s),
            1 if supports_scale_assign(spec.kind) => Op::ScaleAssign(s),
            2 if supports_neg(spec.kind) => Op::Neg,
            _ => Op::Translate(s),
        };
        spec.ops.push(op);
    }
    spec.post = match rng.below(8) {
        0 if supports_derivative(spec.kind) => Post::Derivative,
        1 if supports_integral(spec.kind) => Post::Indefinite,
        2 | 3 if supports_integral(spec.kind) => {
            let x = if matches!(spec.kind, Kind::L(_)) { rng.uniform(0.1, 5.0) } else { rng.range(-3, 3) as f64 };
            Post::Integral(x, gen_coef(rng))
        }
        _ => Post::None,
    };
    spec
}

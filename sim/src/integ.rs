//! The integrator world (C11): the lazy segment-integration iterators of the
//! library, pulled in seeded interleavings with cancellation and restart, against
//! the batch results and an independent closed-form integral in double-double.

use crate::dd::{horner, DD};
use crate::engine::*;
use crate::pieces::*;
use crate::rng::{Digest, Rng};
use piecewise_polynomial::*;
use serde_json::{json, Value};
use std::cell::Cell;
use std::rc::Rc;

#[derive(Clone, Copy, Debug, PartialEq, Eq)]
pub enum IEv {
    PullA,
    PullB,
    CancelA,
    CancelB,
    RestartA,
    RestartB,
    /// a third live iterator (by reference) over the same function but threaded from a DIFFERENT knot
    PullX,
    RestartX,
}

#[derive(Clone, Debug)]
pub struct IntegScn {
    /// P(0..=7) or L(0..=8)
    pub kind: Kind,
    pub ends: Vec<f64>,
    pub coefs: Vec<Vec<f64>>,
    pub knot: (f64, f64),
    pub schedule: Vec<IEv>,
    /// (piece index, evaluation point)
    pub samples: Vec<(usize, f64)>,
    /// whole-sequence consumptions of a fresh iterator: (by value?, consumer method)
    pub batches: Vec<(bool, IBatch)>,
    /// knot of the third iterator
    pub knot2: (f64, f64),
    /// evaluate unrelated log-integral forms of the other family at the same argument right before every
    /// evaluation of a result (independent objects whose calls the caller may interleave freely)
    pub decoy: bool,
}

/// The consumer methods a caller may use on the iterators instead of plain `next()`.
#[derive(Clone, Copy, Debug, PartialEq, Eq)]
pub enum IBatch {
    Fold,
    Count,
    Last,
    Nth(usize),
    Skip(usize),
    StepBy(usize),
    ByRefTake(usize),
    /// two-stage consumption: a head that advances the iterator part of the way (0: `next()` k times;
    /// 1: `nth(k)`; 2: the adaptor `skip(k)`; 3: `by_ref().take(k)` collected), then a tail that finishes
    /// it through another method (0: `fold`; 1: `for_each`; 2: `last`; 3: `count`; 4: a plain `for` loop)
    Chain { head: u8, k: usize, tail: u8 },
}

const ICHAIN_HEADS: [&str; 4] = ["next_x_k", "nth_k", "skip_k", "by_ref_take_k"];
const ICHAIN_TAILS: [&str; 5] = ["fold", "for_each", "last", "count", "for_loop"];

const U: f64 = 1.1102230246251565e-16; // 2^-53

// ---------------------------------------------------------------------------
// Simulator-owned lazy producers (the caller-iterator seams)
// ---------------------------------------------------------------------------

#[derive(Clone, Default)]
struct Meter {
    pos: Rc<Cell<usize>>,
    exhausted: Rc<Cell<usize>>,
}

struct ByValue<T> {
    segs: Rc<Vec<Segment<T>>>,
    m: Meter,
}
impl<T: Clone> Iterator for ByValue<T> {
    type Item = Segment<T>;
    fn next(&mut self) -> Option<Segment<T>> {
        let p = self.m.pos.get();
        if p < self.segs.len() {
            self.m.pos.set(p + 1);
            Some(self.segs[p].clone())
        } else {
            self.m.exhausted.set(self.m.exhausted.get() + 1);
            None
        }
    }
}

struct ByRef<'a, T> {
    segs: &'a [Segment<T>],
    m: Meter,
}
impl<'a, T> Iterator for ByRef<'a, T> {
    type Item = &'a Segment<T>;
    fn next(&mut self) -> Option<&'a Segment<T>> {
        let p = self.m.pos.get();
        if p < self.segs.len() {
            self.m.pos.set(p + 1);
            Some(&self.segs[p])
        } else {
            self.m.exhausted.set(self.m.exhausted.get() + 1);
            None
        }
    }
}

// ---------------------------------------------------------------------------
// Closed forms (the reference model) and magnitudes (for tolerances)
// ---------------------------------------------------------------------------

/// Exact antiderivative with "zero additive constant" of piece `c` at `t`:
/// polynomial: sum c_j t^(j+1)/(j+1); log-polynomial: t*q(ln t) with q_n=p_n, q_i=p_i-(i+1)q_(i+1).
fn antiderivative(kind: Kind, c: &[f64], t: f64) -> DD {
    match kind {
        Kind::P(_) => {
            let mut a = vec![DD::ZERO];
            for (j, &cj) in c.iter().enumerate() {
                a.push(DD::from(cj).div_f((j + 1) as f64));
            }
            horner(&a, DD::from(t))
        }
        Kind::L(_) => {
            let n = c.len();
            let mut q = vec![DD::ZERO; n];
            q[n - 1] = DD::from(c[n - 1]);
            for i in (0..n - 1).rev() {
                q[i] = DD::from(c[i]).sub(q[i + 1].mul_f((i + 1) as f64));
            }
            horner(&q, DD::ln(t)).mul_f(t)
        }
        _ => unreachable!(),
    }
}

/// Sum of the magnitudes of the terms of the library's zero-constant integral form at `t`.
fn magnitude(kind: Kind, c: &[f64], t: f64) -> f64 {
    match kind {
        Kind::P(_) => {
            let x = t.abs();
            let mut m = 0.0;
            let mut xp = x;
            for (j, &cj) in c.iter().enumerate() {
                m += cj.abs() / (j + 1) as f64 * xp;
                xp *= x;
            }
            m
        }
        Kind::L(4) => {
            // form (k, c1..c4, u): a=-p0, b=(a+p1)/2, c=(b-p2)/3, d=(c+p3)/4, u=(d-p4)*24
            let a = c[0].abs();
            let b = (a + c[1].abs()) / 2.0;
            let cc = (b + c[2].abs()) / 3.0;
            let d = (cc + c[3].abs()) / 4.0;
            let u = (d + c[4].abs()) * 24.0;
            let x = DD::ln(t).neg();
            let xa = x.hi.abs();
            // |x^5 R(x)| = |e^x - sum_{j<5} x^j/j!|
            let mut tail = x.exp();
            let mut term = DD::ONE;
            for j in 0..5 {
                if j > 0 {
                    term = term.mul(x).div_f(j as f64);
                }
                tail = tail.sub(term);
            }
            t * (a * xa + b * xa.powi(2) + cc * xa.powi(3) + d * xa.powi(4) + u * tail.to_f64().abs())
        }
        Kind::L(_) => {
            let n = c.len();
            let mut q = vec![0.0; n];
            q[n - 1] = c[n - 1].abs();
            for i in (0..n - 1).rev() {
                q[i] = c[i].abs() + (i + 1) as f64 * q[i + 1];
            }
            let l = t.ln().abs();
            let mut m = 0.0;
            let mut lp = 1.0;
            for qi in q {
                m += qi * lp;
                lp *= l;
            }
            t * m
        }
        _ => unreachable!(),
    }
}

/// Magnitude of the terms the ORACLE sums (double-double evaluation of t*q(ln t) or of the
/// polynomial antiderivative): bounds the oracle's own cancellation error.
fn oracle_magnitude(kind: Kind, c: &[f64], t: f64) -> f64 {
    match kind {
        Kind::L(4) => magnitude(Kind::L(8), c, t), // generic t*sum Q_j |ln t|^j, whatever the degree
        _ => magnitude(kind, c, t),
    }
}
const ORACLE_EPS: f64 = 1e-28;

/// Relative error unit granted to the library for one evaluation of an integral form
/// (C01's 4(n+2)*2^-53 and C10's 1e-12, times a safety factor).
fn unit_error(kind: Kind) -> f64 {
    match kind {
        Kind::P(d) => 32.0 * (d as f64 + 3.0) * U,
        Kind::L(4) => 4e-12,
        Kind::L(d) => 32.0 * (d as f64 + 4.0) * U,
        _ => unreachable!(),
    }
}

/// Expected values and tolerances for a chain of pieces threaded from a start knot.
struct Chain {
    /// per piece: (x_k, exact value at x_k, tolerance constant part, magnitude base)
    pieces: Vec<ChainPiece>,
}
struct ChainPiece {
    xk: f64,
    y_true: DD,
    e_const: f64,
    base: f64,
}

impl Chain {
    /// Thread expected values and tolerances from a start knot `(x, y)` that the first piece passes through.
    fn build(kind: Kind, ends: &[f64], coefs: &[Vec<f64>], first: (f64, f64)) -> Chain {
        let cu = unit_error(kind);
        let mut pieces = Vec::with_capacity(ends.len());
        let mut xk = first.0;
        let mut y_true = DD::from(first.1);
        let mut tau = 0.0;
        let start = 0;
        for i in start..ends.len() {
            let mk = magnitude(kind, &coefs[i], xk);
            let base = y_true.hi.abs() + tau + mk;
            let e_const = tau + cu * base;
            pieces.push(ChainPiece { xk, y_true, e_const, base });
            // next knot
            let t = ends[i];
            let p = pieces.last().unwrap();
            let exp_t = p.y_true.add(antiderivative(kind, &coefs[i], t).sub(antiderivative(kind, &coefs[i], xk)));
            let tol_t = p.e_const + cu * (p.base + magnitude(kind, &coefs[i], t))
                + ORACLE_EPS * (oracle_magnitude(kind, &coefs[i], t) + oracle_magnitude(kind, &coefs[i], p.xk));
            xk = t;
            y_true = exp_t;
            tau = tol_t;
        }
        Chain { pieces }
    }

    fn expected(&self, kind: Kind, coefs: &[Vec<f64>], i: usize, t: f64) -> (DD, f64) {
        let cu = unit_error(kind);
        let p = &self.pieces[i];
        let e = p.y_true.add(antiderivative(kind, &coefs[i], t).sub(antiderivative(kind, &coefs[i], p.xk)));
        let tol = p.e_const + cu * (p.base + magnitude(kind, &coefs[i], t))
            + ORACLE_EPS * (oracle_magnitude(kind, &coefs[i], t) + oracle_magnitude(kind, &coefs[i], p.xk));
        (e, tol)
    }
}

// ---------------------------------------------------------------------------
// Execution
// ---------------------------------------------------------------------------

pub enum IRes {
    Clean(u64),
    Discard,
    Violation(String, String),
}

fn by_value_segs<T: Clone>(f: &Piecewise<T>) -> Rc<Vec<Segment<T>>> {
    Rc::new(f.segments.clone())
}

fn seg_bits<P: Piece>(s: &Segment<P>) -> Vec<u64> {
    let mut b = vec![s.end.to_bits()];
    s.poly.bits(&mut b);
    b
}

fn fmt_seg<P: Piece>(s: &Segment<P>) -> String {
    format!("{:?}", s)
}

/// One `next()` on a live integration iterator, with the per-pull invariants.
#[allow(clippy::too_many_arguments)]
fn do_pull<P: Piece>(
    it: &mut dyn Iterator<Item = Segment<P>>,
    name: &str,
    m: &Meter,
    k: &mut usize,
    step: usize,
    scn: &IntegScn,
    c: &Piecewise<P>,
    cov: &mut Cov,
) -> Result<bool, (String, String)> {
    let n = scn.ends.len();
    if *k >= n {
        // input exhausted: nothing is asserted after the caller's iterator ends
        cov.hit("noop_pull_after_end");
        return Ok(false);
    }
    let before = m.pos.get();
    let out = match guard(|| it.next()) {
        Ok(o) => o,
        Err(p) => return Err(("panic".into(), format!("step {step}: {name} panicked on next(): {p}"))),
    };
    cov.hit("iterator_pulls");
    let consumed = m.pos.get() - before;
    if consumed != 1 || m.exhausted.get() != 0 {
        return Err((
            "laziness".into(),
            format!("step {step}: one next() on {name} consumed {consumed} input segments (must be exactly one)"),
        ));
    }
    let Some(out) = out else {
        return Err(("structure".into(), format!("step {step}: {name} ended after {} of {n} pieces", *k)));
    };
    let i = *k;
    *k += 1;
    if out.end.to_bits() != scn.ends[i].to_bits() {
        return Err((
            "structure".into(),
            format!("step {step}: {name} piece {i} has end {:e}, input end is {:e}", out.end, scn.ends[i]),
        ));
    }
    if seg_bits(&out) != seg_bits(&c.segments[i]) {
        return Err((
            "structure".into(),
            format!(
                "step {step}: {name} yielded piece {i} = {} but a fresh, fully collected iterator of the same kind yields {} (what an iterator yields must not depend on how it is pulled, on other live iterators or on earlier ones)",
                fmt_seg(&out),
                fmt_seg(&c.segments[i])
            ),
        ));
    }
    Ok(true)
}

fn run_typed<T>(scn: &IntegScn, cov: &mut Cov, prog: &Progress) -> IRes
where
    T: Piece + HasIntegral,
    // PartialEq: every integral form of the library derives it; required here so that a change adding that
    // bound to Piecewise::integral (legal for all concrete uses) still compiles against the harness
    T::IntegralOf: Piece + Translate + PartialEq,
{
    let kind = scn.kind;
    let n = scn.ends.len();
    let f: Piecewise<T> = build_piecewise::<T>(&scn.ends, &scn.coefs);
    let k0 = Knot::new(scn.knot.0, scn.knot.1);
    prog.tick();
    let c = match guard(|| f.integral(k0)) {
        Ok(c) => c,
        Err(p) => return IRes::Violation("panic".into(), format!("Piecewise::integral panicked: {p}")),
    };
    prog.tick();
    let d = match guard(|| f.indefinite()) {
        Ok(d) => d,
        Err(p) => return IRes::Violation("panic".into(), format!("Piecewise::indefinite panicked: {p}")),
    };
    cov.hit("batch_integral_calls");
    let k1 = Knot::new(scn.knot2.0, scn.knot2.1);
    let cx = match guard(|| f.integral(k1)) {
        Ok(c) => c,
        Err(p) => return IRes::Violation("panic".into(), format!("Piecewise::integral panicked: {p}")),
    };
    let mut dig = Digest::new();

    // ---- reference sequences: each iterator kind, fresh and fully collected, nothing else alive --------
    macro_rules! collect_ref {
        ($make:expr, $name:expr) => {{
            let m = Meter::default();
            match guard(|| {
                let it = $make(m.clone());
                it.collect::<Vec<Segment<T::IntegralOf>>>()
            }) {
                Ok(v) => {
                    if v.len() != n {
                        return IRes::Violation("structure".into(), format!("{} yielded {} pieces for {n} input segments", $name, v.len()));
                    }
                    Piecewise { segments: v }
                }
                Err(p) => return IRes::Violation("panic".into(), format!("collecting {} panicked: {p}", $name)),
            }
        }};
    }
    let by_value_src = Rc::new(f.segments.clone());
    let ref_a = collect_ref!(|m: Meter| Segment::integral_iter(ByValue { segs: by_value_src.clone(), m }, k0), "integral_iter (by value)");
    let ref_b = collect_ref!(|m: Meter| Segment::integral_iter_ref(ByRef { segs: &f.segments[..], m }, k0), "integral_iter_ref (by reference)");
    let ref_x = collect_ref!(|m: Meter| Segment::integral_iter_ref(ByRef { segs: &f.segments[..], m }, k1), "integral_iter_ref (by reference)");
    // the same through inputs that report an EXACT size hint (a Vec by value, a slice by reference): what an
    // iterator yields must not depend on what the caller's iterator says about its length
    let vec_a = match guard(|| Segment::integral_iter(f.segments.clone(), k0).collect::<Vec<_>>()) {
        Ok(v) => v,
        Err(p) => return IRes::Violation("panic".into(), format!("integral_iter over a Vec panicked: {p}")),
    };
    let slice_b = match guard(|| Segment::integral_iter_ref(&f.segments, k0).collect::<Vec<_>>()) {
        Ok(v) => v,
        Err(p) => return IRes::Violation("panic".into(), format!("integral_iter_ref over a slice panicked: {p}")),
    };
    for (name, got, want) in [("integral_iter over a Vec (exact size hint)", &vec_a, &ref_a), ("integral_iter_ref over a slice (exact size hint)", &slice_b, &ref_b)] {
        if got.len() != n {
            return IRes::Violation("structure".into(), format!("{name} yielded {} pieces for {n} input segments", got.len()));
        }
        for i in 0..n {
            if seg_bits(&got[i]) != seg_bits(&want.segments[i]) {
                return IRes::Violation(
                    "structure".into(),
                    format!("piece {i}: {name} yields {} but the same iterator over an input with size hint (0, None) yields {}", fmt_seg(&got[i]), fmt_seg(&want.segments[i])),
                );
            }
        }
    }
    for i in 0..n {
        // the property's own sentence: by-value and by-reference iterators produce identical pieces
        if seg_bits(&ref_a.segments[i]) != seg_bits(&ref_b.segments[i]) {
            return IRes::Violation(
                "structure".into(),
                format!(
                    "piece {i}: integral_iter (by value) yields {} but integral_iter_ref (by reference) yields {}",
                    fmt_seg(&ref_a.segments[i]),
                    fmt_seg(&ref_b.segments[i])
                ),
            );
        }
    }

    // ---- structure of the batch results -------------------------------------------------
    for (name, r) in [("integral(k0)", &c), ("indefinite()", &d)] {
        if r.segments.len() != n {
            return IRes::Violation("structure".into(), format!("{name} returned {} pieces for a function with {n}", r.segments.len()));
        }
        for i in 0..n {
            if r.segments[i].end.to_bits() != scn.ends[i].to_bits() {
                return IRes::Violation(
                    "structure".into(),
                    format!("{name}: breakpoint {i} is {:e}, the integrand's is {:e}", r.segments[i].end, scn.ends[i]),
                );
            }
        }
    }
    for s in &c.segments {
        for w in seg_bits(s) {
            dig.word(w);
        }
    }
    for s in &d.segments {
        for w in seg_bits(s) {
            dig.word(w);
        }
    }
    // indefinite(): first piece is the piece's own zero-constant integral
    let d0 = match guard(|| f.segments[0].indefinite()) {
        Ok(s) => s,
        Err(p) => return IRes::Violation("panic".into(), format!("Segment::indefinite panicked: {p}")),
    };
    let same_numbers = |a: &[u64], b: &[u64]| a.len() == b.len() && a.iter().zip(b).all(|(x, y)| f64::from_bits(*x) == f64::from_bits(*y));
    if !same_numbers(&seg_bits(&d0), &seg_bits(&d.segments[0])) {
        return IRes::Violation(
            "structure".into(),
            format!("indefinite(): first piece {} differs from the first segment's own indefinite() {}", fmt_seg(&d.segments[0]), fmt_seg(&d0)),
        );
    }

    // ---- the two lazy iterators under the seeded schedule -------------------------------
    let by_value = Rc::new(f.segments.clone());
    let mut ma = Meter::default();
    let mut mb = Meter::default();
    let mut ita: Option<Box<dyn Iterator<Item = Segment<T::IntegralOf>>>> = None;
    let mut itb: Option<Box<dyn Iterator<Item = Segment<T::IntegralOf>> + '_>> = None;
    let mut na = 0usize; // outputs yielded by the live A
    let mut nb = 0usize;
    let mut switches = 0u64;
    let mut last_client = 0u8;
    macro_rules! make_a {
        () => {{
            ma = Meter::default();
            let src = ByValue { segs: by_value.clone(), m: ma.clone() };
            match guard(|| Segment::integral_iter(src, k0)) {
                Ok(it) => {
                    if ma.pos.get() != 0 || ma.exhausted.get() != 0 {
                        return IRes::Violation("laziness".into(), "Segment::integral_iter consumed input while being constructed".into());
                    }
                    na = 0;
                    ita = Some(Box::new(it));
                }
                Err(p) => return IRes::Violation("panic".into(), format!("Segment::integral_iter panicked on construction: {p}")),
            }
        }};
    }
    macro_rules! make_b {
        () => {{
            mb = Meter::default();
            let src = ByRef { segs: &f.segments[..], m: mb.clone() };
            match guard(|| Segment::integral_iter_ref(src, k0)) {
                Ok(it) => {
                    if mb.pos.get() != 0 || mb.exhausted.get() != 0 {
                        return IRes::Violation("laziness".into(), "Segment::integral_iter_ref consumed input while being constructed".into());
                    }
                    nb = 0;
                    itb = Some(Box::new(it));
                }
                Err(p) => return IRes::Violation("panic".into(), format!("Segment::integral_iter_ref panicked on construction: {p}")),
            }
        }};
    }
    let mut mx = Meter::default();
    let mut itx: Option<Box<dyn Iterator<Item = Segment<T::IntegralOf>> + '_>> = None;
    let mut nx = 0usize;
    macro_rules! make_x {
        () => {{
            mx = Meter::default();
            let src = ByRef { segs: &f.segments[..], m: mx.clone() };
            match guard(|| Segment::integral_iter_ref(src, k1)) {
                Ok(it) => {
                    nx = 0;
                    itx = Some(Box::new(it));
                }
                Err(p) => return IRes::Violation("panic".into(), format!("Segment::integral_iter_ref panicked on construction: {p}")),
            }
        }};
    }
    make_a!();
    make_b!();
    if scn.schedule.iter().any(|e| matches!(e, IEv::PullX | IEv::RestartX)) {
        make_x!();
    }
    for (step, ev) in scn.schedule.iter().enumerate() {
        prog.tick();
        cov.events += 1;
        let is_a = matches!(ev, IEv::PullA | IEv::CancelA | IEv::RestartA);
        if step > 0 && (is_a as u8) != last_client {
            switches += 1;
        }
        last_client = is_a as u8;
        match ev {
            IEv::PullX => {
                let r = match itx.as_deref_mut() {
                    Some(it) => do_pull(it, "integral_iter_ref (third iterator, other knot)", &mx, &mut nx, step, scn, &ref_x, cov),
                    None => Ok(false),
                };
                match r {
                    Ok(true) => {
                        cov.hit("pull_third_iterator_other_knot");
                        dig.word(step as u64 * 2 + 7)
                    }
                    Ok(false) => {}
                    Err((class, detail)) => return IRes::Violation(class, detail),
                }
            }
            IEv::RestartX => {
                itx = None;
                make_x!();
            }
            IEv::PullA | IEv::PullB => {
                let r = if is_a {
                    match ita.as_deref_mut() {
                        Some(it) => do_pull(it, "integral_iter (by value)", &ma, &mut na, step, scn, &ref_a, cov),
                        None => Ok(false),
                    }
                } else {
                    match itb.as_deref_mut() {
                        Some(it) => do_pull(it, "integral_iter_ref (by reference)", &mb, &mut nb, step, scn, &ref_b, cov),
                        None => Ok(false),
                    }
                };
                match r {
                    Ok(true) => dig.word(step as u64 * 2 + is_a as u64),
                    Ok(false) => {}
                    Err((class, detail)) => return IRes::Violation(class, detail),
                }
            }
            IEv::CancelA => {
                if ita.take().is_some() {
                    cov.hit("fault_cancel_by_value");
                    if na > 0 && na < n {
                        cov.hit("probe_cancel_mid_stream");
                    }
                }
            }
            IEv::CancelB => {
                if itb.take().is_some() {
                    cov.hit("fault_cancel_by_ref");
                    if nb > 0 && nb < n {
                        cov.hit("probe_cancel_mid_stream");
                    }
                }
            }
            IEv::RestartA => {
                cov.hit("fault_restart_by_value");
                ita = None;
                make_a!();
            }
            IEv::RestartB => {
                cov.hit("fault_restart_by_ref");
                itb = None;
                make_b!();
            }
        }
    }
    cov.add("interleaving_switches", switches);
    drop(ita);
    drop(itb);
    drop(itx);

    // ---- whole-sequence consumptions of fresh iterators ----------------------------------
    for (bi, &(by_value, mode)) in scn.batches.iter().enumerate() {
        prog.tick();
        cov.events += 1;
        let m = Meter::default();
        let name = if by_value { "integral_iter (by value)" } else { "integral_iter_ref (by reference)" };
        // (index, piece) pairs observed, the count if asked for
        let res: Result<(Vec<(usize, Segment<T::IntegralOf>)>, Option<usize>, usize), String> = guard(|| {
            macro_rules! consume {
                ($it:expr) => {{
                    let mut it = $it;
                    match mode {
                        IBatch::Fold => {
                            let v = it.fold(Vec::new(), |mut acc, s| {
                                acc.push(s);
                                acc
                            });
                            (v.into_iter().enumerate().collect(), None, n)
                        }
                        IBatch::Count => (Vec::new(), Some(it.count()), 0),
                        IBatch::Last => match it.last() {
                            Some(s) => (vec![(n - 1, s)], None, 1),
                            None => (Vec::new(), None, 1),
                        },
                        IBatch::Nth(k) => {
                            let mut v = Vec::new();
                            if let Some(s) = it.nth(k) {
                                v.push((k, s));
                            }
                            for (j, s) in it.enumerate() {
                                v.push((k + 1 + j, s));
                            }
                            (v, None, n.saturating_sub(k))
                        }
                        IBatch::Skip(k) => (it.skip(k).enumerate().map(|(j, s)| (k + j, s)).collect(), None, n.saturating_sub(k)),
                        IBatch::StepBy(k) => {
                            let k = k.max(1);
                            (it.step_by(k).enumerate().map(|(j, s)| (j * k, s)).collect(), None, n.div_ceil(k))
                        }
                        IBatch::ByRefTake(k) => {
                            let mut v: Vec<(usize, Segment<T::IntegralOf>)> = it.by_ref().take(k).enumerate().collect();
                            let taken = v.len();
                            for (j, s) in it.enumerate() {
                                v.push((taken + j, s));
                            }
                            (v, None, n)
                        }
                        IBatch::Chain { head, k, tail } => {
                            let mut v: Vec<(usize, Segment<T::IntegralOf>)> = Vec::new();
                            macro_rules! finish {
                                ($r:expr, $base:expr) => {{
                                    let r = $r;
                                    let base: usize = $base;
                                    let cnt = n - base;
                                    let seen = v.len();
                                    match tail {
                                        0 => {
                                            let w = r.fold(Vec::new(), |mut a, s| {
                                                a.push(s);
                                                a
                                            });
                                            v.extend(w.into_iter().enumerate().map(|(j, s)| (base + j, s)));
                                            (v, None, seen + cnt)
                                        }
                                        1 => {
                                            let mut j = 0;
                                            r.for_each(|s| {
                                                v.push((base + j, s));
                                                j += 1;
                                            });
                                            (v, None, seen + cnt)
                                        }
                                        2 => {
                                            if let Some(s) = r.last() {
                                                v.push((n - 1, s));
                                            }
                                            (v, None, seen + usize::from(cnt > 0))
                                        }
                                        3 => {
                                            let c = r.count();
                                            (v, Some(base + c), seen)
                                        }
                                        _ => {
                                            let mut j = 0;
                                            for s in r {
                                                v.push((base + j, s));
                                                j += 1;
                                            }
                                            (v, None, seen + cnt)
                                        }
                                    }
                                }};
                            }
                            match head {
                                0 => {
                                    let k = k.min(n);
                                    for j in 0..k {
                                        if let Some(s) = it.next() {
                                            v.push((j, s));
                                        }
                                    }
                                    finish!(it, k)
                                }
                                1 if n > 0 => {
                                    let k = k.min(n - 1);
                                    if let Some(s) = it.nth(k) {
                                        v.push((k, s));
                                    }
                                    finish!(it, k + 1)
                                }
                                3 => {
                                    let k = k.min(n);
                                    v = it.by_ref().take(k).enumerate().collect();
                                    finish!(it, k)
                                }
                                _ => {
                                    let k = k.min(n);
                                    finish!(it.skip(k), k)
                                }
                            }
                        }
                    }
                }};
            }
            if by_value {
                consume!(Segment::integral_iter(ByValue { segs: by_value_segs(&f), m: m.clone() }, k0))
            } else {
                consume!(Segment::integral_iter_ref(ByRef { segs: &f.segments[..], m: m.clone() }, k0))
            }
        });
        let (vals, count, due) = match res {
            Ok(r) => r,
            Err(p) => return IRes::Violation("panic".into(), format!("batch {bi}: consuming {name} with {mode:?} panicked: {p}")),
        };
        cov.hit("iterator_batches");
        if matches!(mode, IBatch::Chain { .. }) {
            cov.hit("iterator_batches_two_stage_chain");
        }
        if m.pos.get() != n {
            return IRes::Violation(
                "laziness".into(),
                format!("batch {bi}: consuming {name} with {mode:?} pulled {} of the {n} input segments", m.pos.get()),
            );
        }
        if let Some(c) = count {
            if c != n {
                return IRes::Violation("structure".into(), format!("batch {bi}: {name}.count() = {c} for {n} segments"));
            }
        }
        if vals.len() != due {
            return IRes::Violation(
                "structure".into(),
                format!("batch {bi}: consuming {name} with {mode:?} produced {} pieces where {due} were due", vals.len()),
            );
        }
        let reference = if by_value { &ref_a } else { &ref_b };
        for (i, s) in &vals {
            if *i >= n || seg_bits(s) != seg_bits(&reference.segments[*i]) {
                return IRes::Violation(
                    "structure".into(),
                    format!(
                        "batch {bi}: consuming {name} with {mode:?} yielded {} as piece {i}; plain next() on a fresh iterator of the same kind yields {}",
                        fmt_seg(s),
                        reference.segments.get(*i).map(fmt_seg).unwrap_or_default()
                    ),
                );
            }
        }
    }

    // ---- values: through the knot, continuity, true integral ---------------------------
    let chain_c = Chain::build(kind, &scn.ends, &scn.coefs, scn.knot);
    // indefinite(): which antiderivative the first piece is (its additive constant) is form-specific
    // (the quartic log form and t*q(ln t) differ by a constant), so the chain is anchored black-box at
    // the library's own value of the first piece at its end.
    let d_anchor_x = if scn.ends[0].is_finite() { scn.ends[0] } else { scn.knot.0 };
    let d_anchor = match guard(|| d.segments[0].evaluate(d_anchor_x)) {
        Ok(v) => v,
        Err(p) => return IRes::Violation("panic".into(), format!("evaluating the first piece of indefinite() panicked: {p}")),
    };
    if !d_anchor.is_finite() {
        return IRes::Discard;
    }
    let chain_d = Chain::build(kind, &scn.ends, &scn.coefs, (d_anchor_x, d_anchor));
    // The iterators and the batch results describe the same function: compared BY VALUE (each is within
    // its tolerance of the exact integral, so they are within twice that of each other). Bit-identity of
    // `Piecewise::integral` with the iterators is not demanded: the property does not state it.
    let chain_x = Chain::build(kind, &scn.ends, &scn.coefs, scn.knot2);
    for (name, seq, batch, chain, anchor) in [
        ("integral_iter / integral_iter_ref", &ref_a, &c, &chain_c, scn.knot.0),
        ("integral_iter_ref from the third iterator's knot", &ref_x, &cx, &chain_x, scn.knot2.0),
    ] {
        for i in 0..n {
            for t in [if i == 0 { anchor } else { scn.ends[i - 1] }, scn.ends[i]] {
                if !t.is_finite() {
                    continue;
                }
                let (e, tol) = chain.expected(kind, &scn.coefs, i, t);
                if !e.is_finite() || !tol.is_finite() {
                    return IRes::Discard;
                }
                let pair = guard(|| (seq.segments[i].evaluate(t), batch.segments[i].evaluate(t)));
                let (a, b) = match pair {
                    Ok(p) => p,
                    Err(p) => return IRes::Violation("panic".into(), format!("evaluating piece {i} at {t:e} panicked: {p}")),
                };
                cov.hit("value_checks");
                if !((a - b).abs() <= 2.0 * tol) {
                    return IRes::Violation(
                        "tolerance".into(),
                        format!(
                            "piece {i} at t={t:e}: {name} gives {a:e} but Piecewise::integral gives {b:e} (exact {:e}); they differ by {:e}, more than twice the tolerance {tol:e}",
                            e.hi,
                            (a - b).abs()
                        ),
                    );
                }
            }
        }
    }
    let in_first = n == 1 || scn.knot.0 < scn.ends[0];
    if in_first {
        cov.hit("probe_knot_in_first_piece_domain");
    } else {
        cov.hit("probe_knot_outside_first_piece_domain");
    }
    for i in 1..n {
        if scn.ends[i] == scn.ends[i - 1] {
            cov.hit("probe_zero_width_piece_integrated");
        }
    }
    // the points every run checks: the knot on piece 0, both sides of every interior breakpoint
    let mut points: Vec<(usize, f64, &str)> = vec![(0, scn.knot.0, "first piece at the knot")];
    for i in 1..n {
        points.push((i - 1, scn.ends[i - 1], "left piece at its end"));
        points.push((i, scn.ends[i - 1], "right piece at the shared breakpoint"));
    }
    for &(i, t) in &scn.samples {
        if i < n {
            points.push((i, t, "sampled point"));
        }
    }
    for (which, res, chain) in [("integral(k0)", &c, &chain_c), ("indefinite()", &d, &chain_d)] {
        for &(i, t, what) in &points {
            if which == "indefinite()" && what == "first piece at the knot" {
                continue;
            }
            if !t.is_finite() {
                continue; // an infinite last breakpoint: nothing to evaluate there
            }
            prog.tick();
            if scn.decoy && t > 0.0 {
                let _ = guard(|| {
                    let a = IntOfLogPoly4 { k: 0.5, coeffs: [1.0, 2.0, 3.0, 4.0], u: 5.0 }.evaluate(t);
                    let b = IntOfLog { k: 0.5, poly: Poly2([1.0, 2.0, 3.0]) }.evaluate(t);
                    a + b
                });
                cov.hit("decoy_evaluations");
            }
            let v = match guard(|| res.segments[i].evaluate(t)) {
                Ok(v) => v,
                Err(p) => return IRes::Violation("panic".into(), format!("evaluating piece {i} of {which} at {t:e} panicked: {p}")),
            };
            let (e, tol) = chain.expected(kind, &scn.coefs, i, t);
            if !e.is_finite() || !tol.is_finite() || !v.is_finite() {
                if !e.is_finite() || !tol.is_finite() {
                    return IRes::Discard;
                }
                return IRes::Violation(
                    "tolerance".into(),
                    format!("{which}: piece {i} evaluates to {v:e} at t={t:e} ({what}); expected {:e}", e.hi),
                );
            }
            cov.hit("value_checks");
            let err = (DD::from(v).sub(e)).to_f64().abs();
            if err > tol {
                return IRes::Violation(
                    "tolerance".into(),
                    format!(
                        "{which}: piece {i} at t={t:e} ({what}) evaluates to {v:e}; the integral threaded from {} is {:e}; error {err:e} exceeds the tolerance {tol:e}",
                        if which == "integral(k0)" { format!("the knot ({:e},{:e})", scn.knot.0, scn.knot.1) } else { format!("the first piece's own value at ({:e},{:e})", d_anchor_x, d_anchor) },
                        e.hi
                    ),
                );
            }
        }
    }
    IRes::Clean(dig.0)
}

macro_rules! with_integrable {
    ($kind:expr, $T:ident => $body:expr) => {{
        match $kind {
            Kind::P(0) => { type $T = Poly0; $body }
            Kind::P(1) => { type $T = Poly1; $body }
            Kind::P(2) => { type $T = Poly2; $body }
            Kind::P(3) => { type $T = Poly3; $body }
            Kind::P(4) => { type $T = Poly4; $body }
            Kind::P(5) => { type $T = Poly5; $body }
            Kind::P(6) => { type $T = Poly6; $body }
            Kind::P(7) => { type $T = Poly7; $body }
            Kind::L(0) => { type $T = Log<Poly0>; $body }
            Kind::L(1) => { type $T = Log<Poly1>; $body }
            Kind::L(2) => { type $T = Log<Poly2>; $body }
            Kind::L(3) => { type $T = Log<Poly3>; $body }
            Kind::L(4) => { type $T = Log<Poly4>; $body }
            Kind::L(5) => { type $T = Log<Poly5>; $body }
            Kind::L(6) => { type $T = Log<Poly6>; $body }
            Kind::L(7) => { type $T = Log<Poly7>; $body }
            Kind::L(8) => { type $T = Log<Poly8>; $body }
            _ => IRes::Discard,
        }
    }};
}

fn valid(scn: &IntegScn) -> bool {
    let n = scn.ends.len();
    if n == 0 || scn.coefs.len() != n {
        return false;
    }
    if !matches!(scn.kind, Kind::P(0..=7) | Kind::L(0..=8)) {
        return false;
    }
    if scn.coefs.iter().any(|c| c.len() != scn.kind.nc() || c.iter().any(|x| !x.is_finite())) {
        return false;
    }
    // the last breakpoint may be +inf (the last piece extends to infinity anyway); all others finite
    let nn = scn.ends.len();
    if scn.ends[..nn - 1].iter().any(|e| !e.is_finite()) || scn.ends[nn - 1].is_nan() || scn.ends[nn - 1] == f64::NEG_INFINITY || scn.ends.windows(2).any(|w| w[1] < w[0]) {
        return false;
    }
    if !scn.knot.0.is_finite() || !scn.knot.1.is_finite() || !scn.knot2.0.is_finite() || !scn.knot2.1.is_finite() {
        return false;
    }
    if matches!(scn.kind, Kind::L(_)) && scn.knot2.0 <= 0.0 {
        return false;
    }
    if matches!(scn.kind, Kind::L(_)) {
        if scn.ends.iter().any(|&e| e <= 0.0) || scn.knot.0 <= 0.0 || scn.samples.iter().any(|&(_, t)| !(t > 0.0)) {
            return false;
        }
    }
    scn.samples.iter().all(|&(_, t)| t.is_finite())
}

pub fn execute(scn: &IntegScn, cov: &mut Cov, prog: &Progress) -> IRes {
    if !valid(scn) {
        return IRes::Discard;
    }
    with_integrable!(scn.kind, T => run_typed::<T>(scn, cov, prog))
}

// ---------------------------------------------------------------------------
// Generation
// ---------------------------------------------------------------------------

fn integrable_kinds() -> Vec<Kind> {
    let mut v: Vec<Kind> = (0..=7).map(Kind::P).collect();
    v.extend((0..=8).map(Kind::L));
    v
}

fn gen_scn(rng: &mut Rng, _tier: Tier) -> IntegScn {
    let kinds = integrable_kinds();
    let kind = *rng.pick(&kinds);
    let is_log = matches!(kind, Kind::L(_));
    let n = match rng.below(20) {
        0..=3 => 1,
        4..=8 => 2,
        9..=13 => 3,
        14..=16 => 4,
        17..=18 => rng.usize_in(5, 10),
        _ => match rng.below(10) {
            0..=5 => rng.usize_in(5, 10),
            6..=8 => rng.usize_in(11, 40),
            _ => {
                if rng.chance(1, 12) {
                    if rng.chance(1, 6) {
                        rng.usize_in(4097, 4200)
                    } else {
                        rng.usize_in(1025, 2100)
                    }
                } else {
                    rng.usize_in(100, 300)
                }
            }
        },
    };
    // narrow pieces at a large offset (timestamps): only for constant and linear pieces, where the
    // contribution of a narrow piece is still far above the rounding of the evaluated form
    let offset_narrow = !is_log && rng.chance(1, 25);
    let kind = if offset_narrow { *rng.pick(&[Kind::P(0), Kind::P(1)]) } else { kind };
    // breakpoints
    let mut ends = Vec::with_capacity(n);
    let pat = rng.below(5);
    if is_log {
        // 5: breakpoints within 1e-3 of 1.0 (ln changes sign there; shortcuts "near one" live there)
        let pat = if pat == 4 && rng.chance(1, 2) { 5 } else { pat };
        let mut x = match pat {
            0 => 0.25,
            1 => 1.0,
            2 => 0.5,
            5 => *rng.pick(&[0.9991, 0.9995, 0.999999, 1.0 - f64::EPSILON, 1.0, 1.0 + f64::EPSILON, 1.000001, 1.0005]),
            _ => rng.uniform(0.05, 3.0),
        };
        for _ in 0..n {
            ends.push(x);
            x = match pat {
                0 | 1 => x * *rng.pick(&[1.0, 2.0, 2.0, 4.0]),
                2 => x + *rng.pick(&[0.0, 0.5, 0.5, 1.0]),
                5 => x + *rng.pick(&[0.0, 1e-6, 1e-4, 3e-4, 0.5]),
                _ => x + rng.uniform(0.01, 4.0),
            };
        }
    } else {
        let mut x = match pat {
            0 | 1 => rng.range(-4, 2) as f64,
            2 => rng.range(-16, 8) as f64 * 0.25,
            _ => rng.uniform(-8.0, 4.0),
        };
        for _ in 0..n {
            ends.push(x);
            x += match pat {
                0 => rng.range(1, 2) as f64,
                1 => rng.range(0, 2) as f64,
                2 => rng.range(0, 6) as f64 * 0.25,
                _ => rng.uniform(0.01, 3.0),
            };
        }
    }
    if offset_narrow {
        let base = *rng.pick(&[1e6, 1e9, 1.7e12]);
        let w = base * *rng.pick(&[1e-13, 1e-12, 3e-12, 1e-10]);
        ends.clear();
        let mut x = base;
        for _ in 0..n {
            ends.push(x);
            x += w * rng.usize_in(0, 3) as f64;
        }
    }
    // coefficients: exact (small integers) or general
    let exact = rng.chance(1, 2);
    let big = rng.chance(1, 10);
    // coefficient patterns that special-casing code could hinge on
    let pattern = rng.below(12);
    let coefs: Vec<Vec<f64>> = (0..n)
        .map(|_| {
            let same = rng.range(-3, 3) as f64 + if exact { 0.0 } else { rng.unit() };
            let only = rng.usize_in(0, kind.nc() - 1);
            (0..kind.nc())
                .map(|j| {
                    if pattern == 0 && rng.chance(1, 2) {
                        0.0 // an identically zero piece
                    } else if pattern == 1 {
                        same // all coefficients equal
                    } else if pattern == 2 {
                        if j == only { same } else { 0.0 } // a single monomial
                    } else if pattern == 3 && rng.chance(1, 3) {
                        0.0 // scattered exact zeros
                    } else if exact {
                        rng.range(-3, 3) as f64
                    } else if big {
                        rng.uniform(-1e3, 1e3)
                    } else {
                        rng.uniform(-4.0, 4.0)
                    }
                })
                .collect()
        })
        .collect();
    // knot
    let in_first = rng.chance(7, 10);
    let kx = if in_first {
        if is_log {
            let hi = ends[0];
            match rng.below(3) {
                0 => hi * 0.5,
                1 if hi > 1.0 => *rng.pick(&[1.0, 1.0, 0.9995, 0.999999, 1.0 + f64::EPSILON]),
                _ => rng.uniform(hi * 0.05, hi * 0.999),
            }
        } else {
            match rng.below(3) {
                0 => ends[0] - 1.0,
                1 => ends[0] - rng.range(1, 8) as f64 * 0.25,
                _ => ends[0] - rng.uniform(0.001, 5.0),
            }
        }
    } else if is_log {
        match rng.below(3) {
            0 => *rng.pick(&ends),
            1 => ends[n - 1] + rng.uniform(0.0, 3.0),
            _ => rng.uniform(0.05, 20.0),
        }
    } else {
        match rng.below(3) {
            0 => *rng.pick(&ends),
            1 => ends[n - 1] + rng.uniform(0.0, 3.0),
            _ => rng.uniform(-8.0, 8.0),
        }
    };
    let ky = if exact { rng.range(-3, 3) as f64 } else { rng.uniform(-10.0, 10.0) };
    // schedule
    let len = rng.usize_in(0, 3 * n + 4);
    let third = rng.chance(1, 3);
    let w = [
        rng.usize_in(1, 8) as u32,
        rng.usize_in(1, 8) as u32,
        rng.usize_in(0, 1) as u32,
        rng.usize_in(0, 1) as u32,
        rng.usize_in(0, 2) as u32,
        rng.usize_in(0, 2) as u32,
        if third { rng.usize_in(1, 6) as u32 } else { 0 },
        if third { rng.usize_in(0, 1) as u32 } else { 0 },
    ];
    let evs = [IEv::PullA, IEv::PullB, IEv::CancelA, IEv::CancelB, IEv::RestartA, IEv::RestartB, IEv::PullX, IEv::RestartX];
    let schedule = (0..len).map(|_| evs[rng.weighted(&w)]).collect();
    // samples
    let mut samples = Vec::new();
    for i in 0..n {
        let lo = if i > 0 { ends[i - 1] } else if is_log { ends[0] * 0.25 } else { ends[0] - 3.0 };
        let hi = if i + 1 < n || n == 1 { ends[i] } else { ends[i] + 2.0 };
        let k = rng.usize_in(0, 3);
        for _ in 0..k {
            let t = match rng.below(4) {
                0 => ends[i].next_down(),
                1 => lo + (hi - lo) * 0.5,
                2 => ends[i],
                _ => rng.uniform(lo, hi.max(lo)),
            };
            if t.is_finite() && (!is_log || t > 0.0) {
                samples.push((i, t));
            }
        }
    }
    if rng.chance(1, 2) {
        let t = ends[n - 1] + rng.uniform(0.0, 4.0);
        samples.push((n - 1, t));
    }
    // whole-sequence consumptions
    let nb = *rng.pick(&[0usize, 0, 0, 1, 2]);
    let batches = (0..nb)
        .map(|_| {
            let mode = match rng.below(11) {
                8 | 9 | 10 => IBatch::Chain { head: rng.below(4) as u8, k: rng.usize_in(0, n), tail: rng.below(5) as u8 },
                0 => IBatch::Fold,
                1 => IBatch::Count,
                2 => IBatch::Last,
                3 | 4 => IBatch::Nth(rng.usize_in(0, n)),
                5 => IBatch::Skip(rng.usize_in(0, n)),
                6 => IBatch::StepBy(rng.usize_in(1, 4)),
                _ => IBatch::ByRefTake(rng.usize_in(0, n)),
            };
            (rng.chance(1, 2), mode)
        })
        .collect();
    let knot2 = (if is_log { kx * *rng.pick(&[0.5, 2.0, 1.25]) } else { kx + *rng.pick(&[-1.0, 0.5, 2.0]) }, ky + *rng.pick(&[1.0, -2.5, 0.0]));
    let decoy = rng.chance(1, 2);
    let mut scn = IntegScn { kind, ends, coefs, knot: (kx, ky), schedule, samples, batches, knot2, decoy };
    // magnitude classes of the ordinates: all coefficients scaled together
    let cscale = *rng.pick(&[1.0, 1.0, 1.0, 1.0, 1.0, 1.0, 1.0, 1e-18, 1e-6, 1e6, 1e12]);
    if cscale != 1.0 {
        for c in scn.coefs.iter_mut() {
            for x in c.iter_mut() {
                *x *= cscale;
            }
        }
        scn.knot.1 *= cscale;
        scn.knot2.1 *= cscale;
    }
    // large knot ordinates (absolute-vs-relative slips)
    if rng.chance(1, 20) {
        scn.knot.1 = *rng.pick(&[1e9, -1e9, 1e15]);
    }
    // magnitude classes of the abscissae: everything on the x axis is scaled together
    let scale = if is_log {
        *rng.pick(&[1.0, 1.0, 1.0, 1.0, 1.0, 1.0, 1e6, 1e-6, 1e100, 1e-100])
    } else {
        *rng.pick(&[1.0, 1.0, 1.0, 1.0, 1.0, 1.0, 1e3, 1e6, 1e-3, 1e-6, 1e-17, 1e-30])
    };
    if scale != 1.0 && !offset_narrow {
        for e in scn.ends.iter_mut() {
            *e *= scale;
        }
        scn.knot.0 *= scale;
        scn.knot2.0 *= scale;
        for s in scn.samples.iter_mut() {
            s.1 *= scale;
        }
    }
    // the last breakpoint may be infinite
    if rng.chance(1, 20) {
        let last = scn.ends.len() - 1;
        scn.ends[last] = f64::INFINITY;
    }
    scn.samples.retain(|s| s.1.is_finite() && (!is_log || s.1 > 0.0));
    scn
}

// ---------------------------------------------------------------------------
// Shrinking, JSON, World
// ---------------------------------------------------------------------------

fn shrink(scn: &IntegScn) -> Vec<IntegScn> {
    let mut out = Vec::new();
    let n = scn.ends.len();
    if !scn.schedule.is_empty() {
        let mut s = scn.clone();
        s.schedule.clear();
        out.push(s);
        for i in 0..scn.schedule.len() {
            let mut s = scn.clone();
            s.schedule.remove(i);
            out.push(s);
        }
    }
    if scn.decoy {
        let mut s = scn.clone();
        s.decoy = false;
        out.push(s);
    }
    if !scn.batches.is_empty() {
        let mut s = scn.clone();
        s.batches.clear();
        out.push(s);
        for i in 0..scn.batches.len() {
            let mut s = scn.clone();
            s.batches.remove(i);
            out.push(s);
        }
    }
    if !scn.samples.is_empty() {
        let mut s = scn.clone();
        s.samples.clear();
        out.push(s);
        for i in 0..scn.samples.len() {
            let mut s = scn.clone();
            s.samples.remove(i);
            out.push(s);
        }
    }
    if n > 1 {
        for i in (0..n).rev() {
            let mut s = scn.clone();
            s.ends.remove(i);
            s.coefs.remove(i);
            s.samples.retain(|&(p, _)| p != i);
            for p in s.samples.iter_mut() {
                if p.0 > i {
                    p.0 -= 1;
                }
            }
            out.push(s);
        }
    }
    // simpler numbers
    for i in 0..n {
        for j in 0..scn.coefs[i].len() {
            for v in [0.0, 1.0] {
                if scn.coefs[i][j] != v && !(v == 1.0 && scn.coefs[i][j] == 0.0) {
                    let mut s = scn.clone();
                    s.coefs[i][j] = v;
                    out.push(s);
                }
            }
        }
    }
    for v in [(1.0, 0.0), (scn.knot.0, 0.0), (scn.knot.0.round(), scn.knot.1)] {
        if v != scn.knot && v.0.is_finite() {
            let mut s = scn.clone();
            s.knot = v;
            out.push(s);
        }
    }
    for i in 0..n {
        let r = scn.ends[i].round();
        if r != scn.ends[i] {
            let mut s = scn.clone();
            s.ends[i] = r;
            out.push(s);
        }
    }
    for i in 0..scn.samples.len() {
        let r = scn.samples[i].1.round();
        if r != scn.samples[i].1 {
            let mut s = scn.clone();
            s.samples[i].1 = r;
            out.push(s);
        }
    }
    out.retain(valid);
    out
}

fn to_json(scn: &IntegScn) -> Value {
    json!({
        "world": "integrator",
        "piece_type": scn.kind.name(),
        "ends": fj_list(&scn.ends),
        "coefficients": scn.coefs.iter().map(|c| fj_list(c)).collect::<Vec<_>>(),
        "knot": [fj(scn.knot.0), fj(scn.knot.1)],
        "third_iterator_knot": [fj(scn.knot2.0), fj(scn.knot2.1)],
        "decoy_evaluations": scn.decoy,
        "schedule": scn.schedule.iter().map(|e| match e {
            IEv::PullA => "pull integral_iter",
            IEv::PullB => "pull integral_iter_ref",
            IEv::CancelA => "cancel integral_iter",
            IEv::CancelB => "cancel integral_iter_ref",
            IEv::RestartA => "restart integral_iter",
            IEv::RestartB => "restart integral_iter_ref",
            IEv::PullX => "pull third iterator",
            IEv::RestartX => "restart third iterator",
        }).collect::<Vec<_>>(),
        "samples": scn.samples.iter().map(|&(i, t)| json!({"piece": i, "t": fj(t)})).collect::<Vec<_>>(),
        "batches": scn.batches.iter().map(|&(v, m)| json!({
            "iterator": if v { "integral_iter" } else { "integral_iter_ref" },
            "consume_with": match m { IBatch::Fold => json!("fold"), IBatch::Count => json!("count"), IBatch::Last => json!("last"), IBatch::Nth(k) => json!({"nth": k}), IBatch::Skip(k) => json!({"skip": k}), IBatch::StepBy(k) => json!({"step_by": k}), IBatch::ByRefTake(k) => json!({"by_ref_take": k}), IBatch::Chain { head, k, tail } => json!({"chain_head": ICHAIN_HEADS[head as usize % 4], "k": k, "chain_tail": ICHAIN_TAILS[tail as usize % 5]}) },
        })).collect::<Vec<_>>(),
    })
}

fn from_json(v: &Value) -> Result<IntegScn, String> {
    let kind = Kind::parse(jstr(v, "piece_type")?)?;
    let ends = jf_list(v.get("ends").ok_or("missing ends")?)?;
    let coefs = v
        .get("coefficients")
        .and_then(|c| c.as_array())
        .ok_or("missing coefficients")?
        .iter()
        .map(jf_list)
        .collect::<Result<Vec<_>, _>>()?;
    let k = v.get("knot").and_then(|k| k.as_array()).ok_or("missing knot")?;
    if k.len() != 2 {
        return Err("bad knot".into());
    }
    let knot = (jf(&k[0])?, jf(&k[1])?);
    let schedule = v
        .get("schedule")
        .and_then(|s| s.as_array())
        .ok_or("missing schedule")?
        .iter()
        .map(|e| {
            Ok(match e.as_str().unwrap_or("") {
                "pull integral_iter" => IEv::PullA,
                "pull integral_iter_ref" => IEv::PullB,
                "cancel integral_iter" => IEv::CancelA,
                "cancel integral_iter_ref" => IEv::CancelB,
                "restart integral_iter" => IEv::RestartA,
                "restart integral_iter_ref" => IEv::RestartB,
                "pull third iterator" => IEv::PullX,
                "restart third iterator" => IEv::RestartX,
                x => return Err(format!("bad schedule entry {x}")),
            })
        })
        .collect::<Result<Vec<_>, String>>()?;
    let samples = v
        .get("samples")
        .and_then(|s| s.as_array())
        .ok_or("missing samples")?
        .iter()
        .map(|s| Ok((jusize(s, "piece")?, jf(s.get("t").ok_or("missing t")?)?)))
        .collect::<Result<Vec<_>, String>>()?;
    let batches = match v.get("batches").and_then(|b| b.as_array()) {
        None => vec![],
        Some(a) => a
            .iter()
            .map(|b| {
                let by_value = jstr(b, "iterator")? == "integral_iter";
                let mode = match b.get("consume_with") {
                    Some(Value::String(s)) => match s.as_str() {
                        "fold" => IBatch::Fold,
                        "count" => IBatch::Count,
                        "last" => IBatch::Last,
                        x => return Err(format!("bad consume_with {x}")),
                    },
                    Some(o) if o.get("chain_head").is_some() => {
                        let pos = |key: &str, names: &[&str]| -> Result<u8, String> {
                            let v = o.get(key).and_then(|v| v.as_str()).ok_or(format!("missing {key}"))?;
                            names.iter().position(|x| *x == v).map(|i| i as u8).ok_or(format!("bad {key} {v}"))
                        };
                        IBatch::Chain { head: pos("chain_head", &ICHAIN_HEADS)?, k: jusize(o, "k")?, tail: pos("chain_tail", &ICHAIN_TAILS)? }
                    }
                    Some(o) if o.get("skip").is_some() => IBatch::Skip(jusize(o, "skip")?),
                    Some(o) if o.get("step_by").is_some() => IBatch::StepBy(jusize(o, "step_by")?.max(1)),
                    Some(o) if o.get("by_ref_take").is_some() => IBatch::ByRefTake(jusize(o, "by_ref_take")?),
                    Some(o) => IBatch::Nth(jusize(o, "nth")?),
                    None => return Err("missing consume_with".to_string()),
                };
                Ok((by_value, mode))
            })
            .collect::<Result<Vec<_>, String>>()?,
    };
    let knot2 = match v.get("third_iterator_knot").and_then(|k| k.as_array()) {
        Some(k) if k.len() == 2 => (jf(&k[0])?, jf(&k[1])?),
        _ => (knot.0, knot.1 + 1.0),
    };
    let decoy = v.get("decoy_evaluations").and_then(|d| d.as_bool()).unwrap_or(false);
    let scn = IntegScn { kind, ends, coefs, knot, schedule, samples, batches, knot2, decoy };
    if !valid(&scn) {
        return Err("scenario is outside the property's quantifier (ill-formed function, non-finite numbers, or non-positive arguments for a log piece)".into());
    }
    Ok(scn)
}

pub struct C11;

impl World for C11 {
    type Scn = IntegScn;
    fn prop(&self) -> &'static str {
        "C11"
    }
    fn level(&self) -> &'static str {
        "exploration"
    }
    fn default_runs(&self, tier: Tier) -> u64 {
        match tier {
            Tier::Quick => 1_500_000,
            Tier::Thorough => 60_000_000,
        }
    }
    fn generate(&self, rng: &mut Rng, tier: Tier) -> IntegScn {
        gen_scn(rng, tier)
    }
    fn explore(&self, base: &IntegScn, _tier: Tier, cov: &mut Cov, prog: &Progress) -> Outcome<IntegScn> {
        match execute(base, cov, prog) {
            IRes::Clean(digest) => {
                if cov.enabled && base.ends.len() >= 2 {
                    // distinct = (piece type, number of pieces, tie pattern of ends, knot position class, schedule)
                    let mut d = Digest::new();
                    d.word(base.kind.index() as u64);
                    d.word(base.ends.len() as u64);
                    for w in base.ends.windows(2) {
                        d.word((w[0] == w[1]) as u64);
                    }
                    d.word(base.ends.partition_point(|&e| e <= base.knot.0) as u64);
                    d.word(base.ends.iter().any(|&e| e == base.knot.0) as u64);
                    for e in &base.schedule {
                        d.word(*e as u64);
                    }
                    cov.note_distinct(d.0);
                }
                Outcome { digest, violation: None }
            }
            IRes::Discard => {
                cov.discards += 1;
                Outcome { digest: 0, violation: None }
            }
            IRes::Violation(class, detail) => Outcome {
                digest: 1,
                violation: Some(Violation { class, detail, scn: base.clone() }),
            },
        }
    }
    fn check(&self, scn: &IntegScn, cov: &mut Cov, prog: &Progress) -> Option<(String, String)> {
        match execute(scn, cov, prog) {
            IRes::Violation(c, d) => Some((c, d)),
            _ => None,
        }
    }
    fn shrink(&self, scn: &IntegScn) -> Vec<IntegScn> {
        shrink(scn)
    }
    fn to_json(&self, scn: &IntegScn) -> Value {
        to_json(scn)
    }
    fn from_json(&self, v: &Value) -> Result<IntegScn, String> {
        from_json(v)
    }
    fn signature(&self, class: &str, scn: &IntegScn) -> String {
        format!("{class}/{}", scn.kind.name())
    }
    fn rule(&self) -> String {
        "Each run: one seeded piecewise function (17 integrable piece types: Poly0..7, Log<Poly0..8>; 1-10 pieces; integer, dyadic, duplicate and random breakpoints, positive for logs), a knot (70% inside the first piece's domain), and a seeded schedule of pull/cancel/restart events over a live Segment::integral_iter (by value) and a live Segment::integral_iter_ref (by reference), both fed by simulator-owned counting iterators. First each iterator kind is collected fresh and whole: by-value and by-reference results must be bit-identical (the property's sentence) and agree by value, within twice the tolerance, with Piecewise::integral. Per pull of a live iterator (including a third one threaded from another knot, in a third of the runs): exactly one input consumed, output end = input end, output bit-identical to what the fresh iterator of that kind yielded, whatever the interleaving, cancellations and restarts; whole-sequence consumer methods (fold, count, last, nth) likewise. Then integral(k0) and indefinite() are checked at the knot, on both sides of every interior breakpoint and at sampled points against the closed-form integral threaded piece by piece in double-double. distinct = distinct (piece type, piece count, tie pattern of breakpoints, knot position relative to the breakpoints, full schedule); non-trivial = at least 2 pieces.".into()
    }
    fn assumptions(&self) -> Vec<String> {
        vec![
            "tolerance per evaluation = 32(n+2)*2^-53 (C01's bound x8) times the sum of magnitudes of the terms of the evaluated integral form, accumulated from piece to piece; 4e-12 times magnitudes for the quartic log-integral form (C10's 1e-12 x4)".into(),
            "libm ln is accurate to about one ulp (its error is covered by the same magnitude-based tolerance); the oracle's own ln is a Newton-corrected double-double".into(),
            "moderate magnitudes: |coefficients| <= 1e3, polynomial breakpoints in [-8,40], log breakpoints in [0.05, 1e4]; runs whose magnitudes overflow are discarded and counted".into(),
            "nothing is asserted after the input iterator has returned None".into(),
            "a single piece's antiderivative being correct is what C07/C09 state (not claimed); here it is checked as part of C11's 'each piece is an antiderivative of the corresponding piece'".into(),
        ]
    }
    fn real_vs_stub(&self) -> Value {
        json!({
            "real": ["piecewise_polynomial from /repo: Segment::integral_iter, Segment::integral_iter_ref, Piecewise::integral, Piecewise::indefinite, Segment::indefinite, HasIntegral for Poly0..7 and Log<Poly0..8>, Evaluate for Poly1..8, IntOfLog<_>, IntOfLogPoly4", "libm ln/exp"],
            "simulated": ["the two caller-supplied input iterators (counting, by value and by reference)", "the consumer: seeded pull/cancel/restart schedule over both iterators"],
            "reference_model": ["closed-form antiderivatives sum c_j t^(j+1)/(j+1) and t*q(ln t) in double-double, threaded through the breakpoints"],
            "not_present_in_target": ["threads", "clocks/timers", "network", "disk"]
        })
    }
}

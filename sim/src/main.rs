//! pwsim — deterministic simulator with fault injection for `piecewise_polynomial`.

mod bytesrc;
mod cursor;
mod dd;
mod engine;
mod funcs;
mod integ;
mod pieces;
mod pipe;
mod rng;

use engine::*;
use std::sync::Arc;

fn usage() -> ! {
    eprintln!(
        "usage:\n  pwsim run --prop <ID> [--tier quick|thorough] [--runs N] [--workers N] [--seed S] [--evidence FILE] [--replay-dir DIR]\n  pwsim digest --prop <ID> [--tier T] [--runs N] [--workers N] [--seed S]\n  pwsim replay <file>"
    );
    std::process::exit(2)
}

struct Args {
    cmd: String,
    prop: Option<String>,
    tier: Tier,
    runs: Option<u64>,
    workers: usize,
    seed: u64,
    evidence: Option<String>,
    replay_dir: String,
    file: Option<String>,
    merge_part: Option<String>,
}

fn parse_args() -> Args {
    let mut it = std::env::args().skip(1);
    let cmd = it.next().unwrap_or_else(|| usage());
    let root = verif_root();
    let env_seed = std::env::var("VERIF_SEED").ok().and_then(|s| s.trim().parse::<u64>().ok());
    let env_tier = std::env::var("VERIF_TIER").ok();
    let mut a = Args {
        cmd,
        prop: None,
        tier: Tier::Quick,
        runs: None,
        workers: std::thread::available_parallelism().map(|n| n.get()).unwrap_or(4).min(16),
        seed: env_seed.unwrap_or(DEFAULT_SEED),
        evidence: None,
        replay_dir: format!("{root}/replays"),
        file: None,
        merge_part: None,
    };
    let mut tier_from_cli = false;
    while let Some(x) = it.next() {
        let mut val = || it.next().unwrap_or_else(|| usage());
        match x.as_str() {
            "--prop" => a.prop = Some(val()),
            "--tier" => {
                tier_from_cli = true;
                a.tier = match val().as_str() {
                    "quick" => Tier::Quick,
                    "thorough" => Tier::Thorough,
                    _ => usage(),
                }
            }
            "--runs" => a.runs = Some(val().parse().unwrap_or_else(|_| usage())),
            "--workers" => a.workers = val().parse().unwrap_or_else(|_| usage()),
            "--seed" => a.seed = val().parse().unwrap_or_else(|_| usage()),
            "--evidence" => a.evidence = Some(val()),
            "--replay-dir" => a.replay_dir = val(),
            "--merge-part" => a.merge_part = Some(val()),
            s if !s.starts_with("--") && a.file.is_none() => a.file = Some(s.to_string()),
            _ => usage(),
        }
    }
    if !tier_from_cli {
        if let Some(t) = env_tier {
            match t.as_str() {
                "quick" => a.tier = Tier::Quick,
                "thorough" => a.tier = Tier::Thorough,
                _ => {}
            }
        }
    }
    a
}

fn run<W: World>(w: W, a: &Args, digest_only: bool) -> i32 {
    let world = Arc::new(w);
    let cfg = RunConfig {
        tier: a.tier,
        seed: a.seed,
        runs: a.runs.unwrap_or_else(|| world.default_runs(a.tier)),
        workers: a.workers.max(1),
        evidence_path: if digest_only { None } else { a.evidence.clone() },
        replay_dir: a.replay_dir.clone(),
        known_findings: format!("{}/known-findings.txt", verif_root()),
        digest_only,
        merge_part: a.merge_part.clone(),
        max_wall_s: match a.tier {
            Tier::Quick => 600,
            Tier::Thorough => 3 * 3600,
        },
    };
    let rep = run_world(world, &cfg);
    if digest_only {
        println!("DIGEST {:016x}", rep.combined_digest);
    }
    rep.exit_code
}

fn dispatch(prop: &str, a: &Args, digest_only: bool) -> i32 {
    match prop {
        "C03" => run(cursor::C03, a, digest_only),
        "C12" => run(cursor::C12, a, digest_only),
        "C16" => run(cursor::C16, a, digest_only),
        "C11" => run(integ::C11, a, digest_only),
        "C19" => run(bytesrc::C19, a, digest_only),
        "C18" => run(pipe::C18, a, digest_only),
        _ => {
            eprintln!("harness error: no world for property {prop}");
            2
        }
    }
}

fn main() {
    install_silent_panic_hook();
    let a = parse_args();
    let code = match a.cmd.as_str() {
        "run" => {
            let prop = a.prop.clone().unwrap_or_else(|| usage());
            dispatch(&prop, &a, false)
        }
        "digest" => {
            let prop = a.prop.clone().unwrap_or_else(|| usage());
            dispatch(&prop, &a, true)
        }
        "replay" => {
            let file = a.file.clone().unwrap_or_else(|| usage());
            let text = match std::fs::read_to_string(&file) {
                Ok(t) => t,
                Err(e) => {
                    eprintln!("harness error: cannot read {file}: {e}");
                    std::process::exit(2);
                }
            };
            let doc: serde_json::Value = match serde_json::from_str(&text) {
                Ok(d) => d,
                Err(e) => {
                    eprintln!("harness error: {file} is not JSON: {e}");
                    std::process::exit(2);
                }
            };
            match doc.get("property").and_then(|p| p.as_str()) {
                Some("C03") => replay_world(Arc::new(cursor::C03), &doc),
                Some("C12") => replay_world(Arc::new(cursor::C12), &doc),
                Some("C16") => replay_world(Arc::new(cursor::C16), &doc),
                Some("C11") => replay_world(Arc::new(integ::C11), &doc),
                Some("C19") => replay_world(Arc::new(bytesrc::C19), &doc),
                Some("C18") => replay_world(Arc::new(pipe::C18), &doc),
                _ => {
                    eprintln!("harness error: replay file names no known property");
                    2
                }
            }
        }
        _ => usage(),
    };
    std::process::exit(code);
}

//! pwsim — deterministic simulator with fault injection for `piecewise_polynomial`.

#[cfg(not(feature = "no_bytesrc"))]
mod bytesrc;
mod cursor;
#[cfg(not(feature = "no_integ"))]
mod dd;
mod engine;
mod funcs;
#[cfg(not(feature = "no_integ"))]
mod integ;
mod pieces;
#[cfg(not(feature = "no_pipe"))]
mod pipe;
#[cfg(not(feature = "no_pipe"))]
mod poscodec;
mod rng;

use engine::*;
use std::sync::Arc;

fn usage() -> ! {
    eprintln!(
        "usage:\n  pwsim run --prop <ID> [--tier quick|thorough] [--runs N] [--workers N] [--seed S] [--evidence FILE] [--replay-dir DIR]\n  pwsim digest --prop <ID> [--tier T] [--runs N] [--workers N] [--seed S]\n  pwsim replay <file>"
    );
    std::process::exit(2)
}

struct Args {
    cmd: String,
    prop: Option<String>,
    tier: Tier,
    runs: Option<u64>,
    workers: usize,
    seed: u64,
    evidence: Option<String>,
    replay_dir: String,
    file: Option<String>,
    merge_part: Option<String>,
    from: u64,
    out: Option<String>,
    sub_from: u64,
    sub_to: u64,
}

fn parse_args() -> Args {
    let mut it = std::env::args().skip(1);
    let cmd = it.next().unwrap_or_else(|| usage());
    let root = verif_root();
    let env_seed = std::env::var("VERIF_SEED").ok().and_then(|s| s.trim().parse::<u64>().ok());
    let env_tier = std::env::var("VERIF_TIER").ok();
    let mut a = Args {
        cmd,
        prop: None,
        tier: Tier::Quick,
        runs: None,
        workers: std::thread::available_parallelism().map(|n| n.get()).unwrap_or(4).min(16),
        seed: env_seed.unwrap_or(DEFAULT_SEED),
        evidence: None,
        replay_dir: format!("{root}/replays"),
        file: None,
        merge_part: None,
        from: 0,
        out: None,
        sub_from: 0,
        sub_to: 0,
    };
    let mut tier_from_cli = false;
    while let Some(x) = it.next() {
        let mut val = || it.next().unwrap_or_else(|| usage());
        match x.as_str() {
            "--prop" => a.prop = Some(val()),
            "--tier" => {
                tier_from_cli = true;
                a.tier = match val().as_str() {
                    "quick" => Tier::Quick,
                    "thorough" => Tier::Thorough,
                    _ => usage(),
                }
            }
            "--runs" => a.runs = Some(val().parse().unwrap_or_else(|_| usage())),
            "--workers" => a.workers = val().parse().unwrap_or_else(|_| usage()),
            "--seed" => a.seed = val().parse().unwrap_or_else(|_| usage()),
            "--evidence" => a.evidence = Some(val()),
            "--replay-dir" => a.replay_dir = val(),
            "--merge-part" => a.merge_part = Some(val()),
            "--from" => a.from = val().parse().unwrap_or_else(|_| usage()),
            "--out" => a.out = Some(val()),
            "--sub-from" => a.sub_from = val().parse().unwrap_or_else(|_| usage()),
            "--sub-to" => a.sub_to = val().parse().unwrap_or_else(|_| usage()),
            s if !s.starts_with("--") && a.file.is_none() => a.file = Some(s.to_string()),
            _ => usage(),
        }
    }
    if !tier_from_cli {
        if let Some(t) = env_tier {
            match t.as_str() {
                "quick" => a.tier = Tier::Quick,
                "thorough" => a.tier = Tier::Thorough,
                _ => {}
            }
        }
    }
    a
}

fn run<W: World>(w: W, a: &Args, digest_only: bool) -> i32 {
    let world = Arc::new(w);
    let cfg = RunConfig {
        tier: a.tier,
        seed: a.seed,
        first_run: a.from,
        runs: a.runs.unwrap_or_else(|| world.default_runs(a.tier)),
        workers: a.workers.max(1),
        evidence_path: if digest_only { None } else { a.evidence.clone() },
        replay_dir: a.replay_dir.clone(),
        known_findings: format!("{}/known-findings.txt", verif_root()),
        digest_only,
        merge_part: a.merge_part.clone(),
        seqfind: a.cmd == "seqfind",
        max_wall_s: match a.tier {
            Tier::Quick => 600,
            Tier::Thorough => 3 * 3600,
        },
    };
    let rep = run_world(world, &cfg);
    if digest_only {
        println!("DIGEST {:016x}", rep.combined_digest);
    }
    rep.exit_code
}

fn dispatch(prop: &str, a: &Args, digest_only: bool) -> i32 {
    match prop {
        "C03" => run(cursor::C03, a, digest_only),
        "C12" => run(cursor::C12, a, digest_only),
        "C16" => run(cursor::C16, a, digest_only),
        #[cfg(not(feature = "no_integ"))]
        "C11" => run(integ::C11, a, digest_only),
        #[cfg(not(feature = "no_bytesrc"))]
        "C19" => run(bytesrc::C19, a, digest_only),
        #[cfg(not(feature = "no_pipe"))]
        "C18" => run(pipe::C18, a, digest_only),
        _ => {
            eprintln!("harness error: no world for property {prop}");
            2
        }
    }
}

fn default_runs_of(prop: &str, tier: Tier) -> u64 {
    match prop {
        "C03" => cursor::C03.default_runs(tier),
        "C12" => cursor::C12.default_runs(tier),
        "C16" => cursor::C16.default_runs(tier),
        #[cfg(not(feature = "no_integ"))]
        "C11" => integ::C11.default_runs(tier),
        #[cfg(not(feature = "no_bytesrc"))]
        "C19" => bytesrc::C19.default_runs(tier),
        #[cfg(not(feature = "no_pipe"))]
        "C18" => pipe::C18.default_runs(tier),
        _ => 0,
    }
}

/// `what`: "count" -> number of variants of the run's base scenario; "json" -> JSON of variant `sub`;
/// "exec" -> execute variants `sub..sub_to` literally in this process (it may abort: that is the point).
fn variant_tool(prop: &str, run_seed: u64, tier: Tier, what: &str, sub: u64, sub_to: u64) -> serde_json::Value {
    fn g<W: World>(w: W, s: u64, t: Tier, what: &str, sub: u64, sub_to: u64) -> serde_json::Value {
        let mut r = rng::Rng::new(s);
        let base = w.generate(&mut r, t);
        match what {
            "count" => serde_json::json!(w.variant_count(&base, t)),
            "json" => w.to_json(&w.variant(&base, sub, t)),
            _ => {
                let prog = Progress::default();
                let mut cov = Cov::new(false);
                for k in sub..sub_to {
                    let _ = w.check(&w.variant(&base, k, t), &mut cov, &prog);
                }
                serde_json::Value::Null
            }
        }
    }
    match prop {
        "C03" => g(cursor::C03, run_seed, tier, what, sub, sub_to),
        "C12" => g(cursor::C12, run_seed, tier, what, sub, sub_to),
        "C16" => g(cursor::C16, run_seed, tier, what, sub, sub_to),
        #[cfg(not(feature = "no_integ"))]
        "C11" => g(integ::C11, run_seed, tier, what, sub, sub_to),
        #[cfg(not(feature = "no_bytesrc"))]
        "C19" => g(bytesrc::C19, run_seed, tier, what, sub, sub_to),
        #[cfg(not(feature = "no_pipe"))]
        "C18" => g(pipe::C18, run_seed, tier, what, sub, sub_to),
        _ => serde_json::Value::Null,
    }
}

fn main() {
    install_silent_panic_hook();
    let a = parse_args();
    let code = match a.cmd.as_str() {
        "run" => {
            let prop = a.prop.clone().unwrap_or_else(|| usage());
            dispatch(&prop, &a, false)
        }
        "digest" => {
            let prop = a.prop.clone().unwrap_or_else(|| usage());
            dispatch(&prop, &a, true)
        }
        "exec-variants" => {
            let prop = a.prop.clone().unwrap_or_else(|| usage());
            let rs = rng::run_seed(a.seed, &prop, a.from);
            variant_tool(&prop, rs, a.tier, "exec", a.sub_from, a.sub_to);
            0
        }
        "seqfind" => {
            let prop = a.prop.clone().unwrap_or_else(|| usage());
            let mut b = a;
            b.workers = 1;
            b.evidence = None;
            let code = dispatch(&prop, &b, false);
            std::process::exit(code)
        }
        "locate-abort" => {
            // The batch terminated abnormally (abort, stack overflow, allocation failure): bisect the run
            // index range in child processes until the single culprit run is found, and write it as a replay.
            let prop = a.prop.clone().unwrap_or_else(|| usage());
            let exe = std::env::current_exe().expect("current_exe");
            let total = a.runs.unwrap_or_else(|| default_runs_of(&prop, a.tier));
            let aborts = |lo: u64, hi: u64| -> bool {
                let st = std::process::Command::new(&exe)
                    .args(["digest", "--prop", &prop, "--tier", a.tier.name(), "--seed", &a.seed.to_string(), "--from", &lo.to_string(), "--runs", &hi.to_string()])
                    .stdout(std::process::Stdio::null())
                    .stderr(std::process::Stdio::null())
                    .status();
                !matches!(st.map(|s| s.code()), Ok(Some(0)) | Ok(Some(1)) | Ok(Some(2)))
            };
            let (mut lo, mut hi) = (0u64, total);
            if !aborts(lo, hi) {
                eprintln!("locate-abort: the batch does not abort when re-run");
                std::process::exit(0);
            }
            while hi - lo > 1 {
                let mid = lo + (hi - lo) / 2;
                if aborts(lo, mid) {
                    hi = mid;
                } else {
                    lo = mid;
                }
            }
            let rs = rng::run_seed(a.seed, &prop, lo);
            // fault-enumeration worlds: which variant of the base scenario aborts? (bisect again, in children)
            let nvar = variant_tool(&prop, rs, a.tier, "count", 0, 0).as_u64().unwrap_or(1);
            let var_aborts = |from: u64, to: u64| -> bool {
                let st = std::process::Command::new(&exe)
                    .args(["exec-variants", "--prop", &prop, "--tier", a.tier.name(), "--seed", &a.seed.to_string(), "--from", &lo.to_string(), "--sub-from", &from.to_string(), "--sub-to", &to.to_string()])
                    .stdout(std::process::Stdio::null())
                    .stderr(std::process::Stdio::null())
                    .status();
                !matches!(st.map(|s| s.code()), Ok(Some(0)) | Ok(Some(1)) | Ok(Some(2)))
            };
            let (mut vlo, mut vhi) = (0u64, nvar);
            if nvar > 1 && var_aborts(vlo, vhi) {
                while vhi - vlo > 1 {
                    let mid = vlo + (vhi - vlo) / 2;
                    if var_aborts(vlo, mid) {
                        vhi = mid;
                    } else {
                        vlo = mid;
                    }
                }
            } else {
                vlo = 0;
            }
            let scn = variant_tool(&prop, rs, a.tier, "json", vlo, 0);
            let doc = serde_json::json!({
                "property": prop, "class": "abort",
                "detail": "the process terminated abnormally (abort / stack overflow / allocation failure) while executing this run",
                "seed": rs, "base_seed": a.seed, "run_index": lo, "fault_variant": vlo, "tier": a.tier.name(), "minimised": false,
                "scenario": scn,
            });
            if let Some(out) = &a.out {
                let _ = std::fs::write(out, serde_json::to_string_pretty(&doc).unwrap());
            }
            println!("abort located at run_index={lo} seed={rs:#x}");
            1
        }
        "replay" => {
            let file = a.file.clone().unwrap_or_else(|| usage());
            let text = match std::fs::read_to_string(&file) {
                Ok(t) => t,
                Err(e) => {
                    eprintln!("harness error: cannot read {file}: {e}");
                    std::process::exit(2);
                }
            };
            let doc: serde_json::Value = match serde_json::from_str(&text) {
                Ok(d) => d,
                Err(e) => {
                    eprintln!("harness error: {file} is not JSON: {e}");
                    std::process::exit(2);
                }
            };
            match doc.get("property").and_then(|p| p.as_str()) {
                Some("C03") => replay_world(Arc::new(cursor::C03), &doc),
                Some("C12") => replay_world(Arc::new(cursor::C12), &doc),
                Some("C16") => replay_world(Arc::new(cursor::C16), &doc),
                #[cfg(not(feature = "no_integ"))]
                Some("C11") => replay_world(Arc::new(integ::C11), &doc),
                #[cfg(not(feature = "no_bytesrc"))]
                Some("C19") => replay_world(Arc::new(bytesrc::C19), &doc),
                #[cfg(not(feature = "no_pipe"))]
                Some("C18") => replay_world(Arc::new(pipe::C18), &doc),
                _ => {
                    eprintln!("harness error: replay file names no known property");
                    2
                }
            }
        }
        _ => usage(),
    };
    std::process::exit(code);
}

//! Piece types of the library behind one small trait, and type-erased handles on
//! `Piecewise<T>` so that the worlds can be written once.

use piecewise_polynomial::*;
use std::cell::RefCell;
use std::collections::VecDeque;
use std::rc::Rc;

/// A function form of the library that can be built from a flat coefficient list.
pub trait Piece: Evaluate + Translate + Clone + Send + Sync + std::fmt::Debug + 'static {
    /// Number of f64 fields (0 = variable, PolyN).
    const NC: usize;
    fn kind() -> Kind;
    fn from_c(c: &[f64]) -> Self;
    fn bits(&self, out: &mut Vec<u64>);
}

macro_rules! poly_piece {
    ($t:ident, $n:expr) => {
        impl Piece for $t {
            const NC: usize = $n;
            fn kind() -> Kind {
                Kind::P($n - 1)
            }
            fn from_c(c: &[f64]) -> Self {
                let mut a = [0.0f64; $n];
                a.copy_from_slice(&c[..$n]);
                $t(a)
            }
            fn bits(&self, out: &mut Vec<u64>) {
                out.extend(self.0.iter().map(|x| x.to_bits()));
            }
        }
    };
}

impl Piece for Poly0 {
    const NC: usize = 1;
    fn kind() -> Kind {
        Kind::P(0)
    }
    fn from_c(c: &[f64]) -> Self {
        Poly0(c[0])
    }
    fn bits(&self, out: &mut Vec<u64>) {
        out.push(self.0.to_bits());
    }
}
poly_piece!(Poly1, 2);
poly_piece!(Poly2, 3);
poly_piece!(Poly3, 4);
poly_piece!(Poly4, 5);
poly_piece!(Poly5, 6);
poly_piece!(Poly6, 7);
poly_piece!(Poly7, 8);
poly_piece!(Poly8, 9);

impl Piece for PolyN {
    const NC: usize = 0;
    fn kind() -> Kind {
        Kind::N
    }
    fn from_c(c: &[f64]) -> Self {
        PolyN(c.to_vec())
    }
    fn bits(&self, out: &mut Vec<u64>) {
        out.push(self.0.len() as u64);
        out.extend(self.0.iter().map(|x| x.to_bits()));
    }
}

impl<T: Piece> Piece for Log<T> {
    const NC: usize = T::NC;
    fn kind() -> Kind {
        match T::kind() {
            Kind::P(k) => Kind::L(k),
            k => k,
        }
    }
    fn from_c(c: &[f64]) -> Self {
        Log(T::from_c(c))
    }
    fn bits(&self, out: &mut Vec<u64>) {
        self.0.bits(out)
    }
}

impl<T: Piece + Copy> Piece for IntOfLog<T> {
    const NC: usize = T::NC + 1;
    fn kind() -> Kind {
        match T::kind() {
            Kind::P(k) => Kind::I(k),
            k => k,
        }
    }
    fn from_c(c: &[f64]) -> Self {
        IntOfLog {
            k: c[0],
            poly: T::from_c(&c[1..]),
        }
    }
    fn bits(&self, out: &mut Vec<u64>) {
        out.push(self.k.to_bits());
        self.poly.bits(out)
    }
}

impl Piece for IntOfLogPoly4 {
    const NC: usize = 6;
    fn kind() -> Kind {
        Kind::Q
    }
    fn from_c(c: &[f64]) -> Self {
        IntOfLogPoly4 {
            k: c[0],
            coeffs: [c[1], c[2], c[3], c[4]],
            u: c[5],
        }
    }
    fn bits(&self, out: &mut Vec<u64>) {
        out.push(self.k.to_bits());
        out.extend(self.coeffs.iter().map(|x| x.to_bits()));
        out.push(self.u.to_bits());
    }
}

/// A USER-DEFINED piece type (the library is generic over `T: Evaluate`): a constant that REJECTS one
/// argument by panicking — a fault injected through the caller-supplied callback. A caller may catch the
/// panic and keep using its evaluator; later answers must still be right.
#[derive(Clone, Debug, PartialEq)]
pub struct UserPiece {
    pub tag: f64,
    pub reject: f64,
}

impl Evaluate for UserPiece {
    fn evaluate(&self, x: f64) -> f64 {
        if x.to_bits() == self.reject.to_bits() {
            panic!("user piece rejects this argument");
        }
        self.tag
    }
}

impl Translate for UserPiece {
    fn translate(&mut self, v: f64) {
        self.tag += v;
    }
}

impl Piece for UserPiece {
    const NC: usize = 2;
    fn kind() -> Kind {
        Kind::U
    }
    fn from_c(c: &[f64]) -> Self {
        UserPiece { tag: c[0], reject: c[1] }
    }
    fn bits(&self, out: &mut Vec<u64>) {
        out.push(self.tag.to_bits());
        out.push(self.reject.to_bits());
    }
}

/// A piecewise function used as the PIECE of another one (`Piecewise<T>` implements `Evaluate`, so
/// `Piecewise<Piecewise<Poly0>>` is a legal instantiation): two inner segments, numbers `[end0, v0, end1, v1]`.
impl Piece for Piecewise<Poly0> {
    const NC: usize = 4;
    fn kind() -> Kind {
        Kind::W
    }
    fn from_c(c: &[f64]) -> Self {
        // inner ends kept non-decreasing
        let (e0, e1) = if c[2] < c[0] { (c[2], c[0]) } else { (c[0], c[2]) };
        Piecewise { segments: vec![Segment { end: e0, poly: Poly0(c[1]) }, Segment { end: e1, poly: Poly0(c[3]) }] }
    }
    fn bits(&self, out: &mut Vec<u64>) {
        out.push(self.segments.len() as u64);
        for s in &self.segments {
            out.push(s.end.to_bits());
            out.push(s.poly.0.to_bits());
        }
    }
}

/// All 30 piece kinds by name. `P`=PolyK, `N`=PolyN, `L`=Log<PolyK>, `I`=IntOfLog<PolyK>, `Q`=IntOfLogPoly4, `W`=nested Piecewise<Poly0>.
#[derive(Clone, Copy, Debug, PartialEq, Eq, PartialOrd, Ord, Hash)]
pub enum Kind {
    P(u8),
    N,
    L(u8),
    I(u8),
    Q,
    W,
    /// the harness's user-defined piece type (`UserPiece`)
    U,
}

impl Kind {
    pub fn name(self) -> String {
        match self {
            Kind::P(k) => format!("Poly{k}"),
            Kind::N => "PolyN".into(),
            Kind::L(k) => format!("Log<Poly{k}>"),
            Kind::I(k) => format!("IntOfLog<Poly{k}>"),
            Kind::Q => "IntOfLogPoly4".into(),
            Kind::W => "Piecewise<Poly0>(as a piece)".into(),
            Kind::U => "UserPiece(constant that panics on one argument)".into(),
        }
    }
    pub fn parse(s: &str) -> Result<Kind, String> {
        let digit = |t: &str| -> Result<u8, String> {
            t.parse::<u8>().ok().filter(|k| *k <= 8).ok_or_else(|| format!("bad kind {s}"))
        };
        if s == "PolyN" {
            Ok(Kind::N)
        } else if s == "IntOfLogPoly4" {
            Ok(Kind::Q)
        } else if s == "Piecewise<Poly0>(as a piece)" {
            Ok(Kind::W)
        } else if s == "UserPiece(constant that panics on one argument)" {
            Ok(Kind::U)
        } else if let Some(r) = s.strip_prefix("IntOfLog<Poly").and_then(|r| r.strip_suffix('>')) {
            Ok(Kind::I(digit(r)?))
        } else if let Some(r) = s.strip_prefix("Log<Poly").and_then(|r| r.strip_suffix('>')) {
            Ok(Kind::L(digit(r)?))
        } else if let Some(r) = s.strip_prefix("Poly") {
            Ok(Kind::P(digit(r)?))
        } else {
            Err(format!("bad kind {s}"))
        }
    }
    /// Number of coefficients per piece (PolyN: caller-chosen, reported as 0).
    pub fn nc(self) -> usize {
        match self {
            Kind::P(k) | Kind::L(k) => k as usize + 1,
            Kind::N => 0,
            Kind::I(k) => k as usize + 2,
            Kind::Q => 6,
            Kind::W => 4,
            Kind::U => 2,
        }
    }
    pub fn all() -> Vec<Kind> {
        let mut v = Vec::new();
        for k in 0..=8 {
            v.push(Kind::P(k));
        }
        v.push(Kind::N);
        for k in 0..=8 {
            v.push(Kind::L(k));
        }
        for k in 0..=8 {
            v.push(Kind::I(k));
        }
        v.push(Kind::Q);
        v.push(Kind::W);
        v.push(Kind::U);
        v
    }
    pub fn index(self) -> usize {
        match self {
            Kind::P(k) => k as usize,
            Kind::N => 9,
            Kind::L(k) => 10 + k as usize,
            Kind::I(k) => 19 + k as usize,
            Kind::Q => 28,
            Kind::W => 29,
            Kind::U => 30,
        }
    }
}

/// Dispatch a generic function body over the concrete piece type named by a `Kind`.
#[macro_export]
macro_rules! with_kind {
    ($kind:expr, $T:ident => $body:expr) => {{
        use piecewise_polynomial::*;
        use $crate::pieces::Kind;
        match $kind {
            Kind::P(0) => { type $T = Poly0; $body }
            Kind::P(1) => { type $T = Poly1; $body }
            Kind::P(2) => { type $T = Poly2; $body }
            Kind::P(3) => { type $T = Poly3; $body }
            Kind::P(4) => { type $T = Poly4; $body }
            Kind::P(5) => { type $T = Poly5; $body }
            Kind::P(6) => { type $T = Poly6; $body }
            Kind::P(7) => { type $T = Poly7; $body }
            Kind::P(_) => { type $T = Poly8; $body }
            Kind::N => { type $T = PolyN; $body }
            Kind::L(0) => { type $T = Log<Poly0>; $body }
            Kind::L(1) => { type $T = Log<Poly1>; $body }
            Kind::L(2) => { type $T = Log<Poly2>; $body }
            Kind::L(3) => { type $T = Log<Poly3>; $body }
            Kind::L(4) => { type $T = Log<Poly4>; $body }
            Kind::L(5) => { type $T = Log<Poly5>; $body }
            Kind::L(6) => { type $T = Log<Poly6>; $body }
            Kind::L(7) => { type $T = Log<Poly7>; $body }
            Kind::L(_) => { type $T = Log<Poly8>; $body }
            Kind::I(0) => { type $T = IntOfLog<Poly0>; $body }
            Kind::I(1) => { type $T = IntOfLog<Poly1>; $body }
            Kind::I(2) => { type $T = IntOfLog<Poly2>; $body }
            Kind::I(3) => { type $T = IntOfLog<Poly3>; $body }
            Kind::I(4) => { type $T = IntOfLog<Poly4>; $body }
            Kind::I(5) => { type $T = IntOfLog<Poly5>; $body }
            Kind::I(6) => { type $T = IntOfLog<Poly6>; $body }
            Kind::I(7) => { type $T = IntOfLog<Poly7>; $body }
            Kind::I(_) => { type $T = IntOfLog<Poly8>; $body }
            Kind::Q => { type $T = IntOfLogPoly4; $body }
            Kind::W => { type $T = Piecewise<Poly0>; $body }
            Kind::U => { type $T = $crate::pieces::UserPiece; $body }
        }
    }};
}

pub fn build_piecewise<T: Piece>(ends: &[f64], coefs: &[Vec<f64>]) -> Piecewise<T> {
    Piecewise {
        segments: ends
            .iter()
            .zip(coefs.iter())
            .map(|(&end, c)| Segment {
                end,
                poly: T::from_c(c),
            })
            .collect(),
    }
}

// ---------------------------------------------------------------------------
// The caller-iterator seam of `evaluate_v`
// ---------------------------------------------------------------------------

/// Simulator-owned input iterator handed to `Piecewise::evaluate_v`. Every pull
/// the library makes is counted, so laziness and order are observable.
#[derive(Clone, Default)]
pub struct SimFeed {
    inner: Rc<RefCell<FeedInner>>,
}

#[derive(Default)]
struct FeedInner {
    queue: VecDeque<f64>,
    pulls: u64,
    exhausted_pulls: u64,
}

impl SimFeed {
    pub fn new() -> SimFeed {
        SimFeed::default()
    }
    pub fn push(&self, x: f64) {
        self.inner.borrow_mut().queue.push_back(x);
    }
    pub fn queued(&self) -> usize {
        self.inner.borrow().queue.len()
    }
    pub fn pulls(&self) -> u64 {
        self.inner.borrow().pulls
    }
    pub fn exhausted_pulls(&self) -> u64 {
        self.inner.borrow().exhausted_pulls
    }
}

impl Iterator for SimFeed {
    type Item = f64;
    fn next(&mut self) -> Option<f64> {
        let mut g = self.inner.borrow_mut();
        match g.queue.pop_front() {
            Some(x) => {
                g.pulls += 1;
                Some(x)
            }
            None => {
                g.exhausted_pulls += 1;
                None
            }
        }
    }
}

// ---------------------------------------------------------------------------
// Type-erased handle on a Piecewise<T>
// ---------------------------------------------------------------------------

pub trait Target {
    fn kind(&self) -> Kind;
    /// The numbers of piece `i` (as `Piece::from_c` takes them).
    fn coefs(&self, i: usize) -> Vec<f64>;
    fn len(&self) -> usize;
    fn end(&self, i: usize) -> f64;
    /// `Piecewise::evaluate`
    fn direct(&self, x: f64) -> f64;
    /// `segments[i].evaluate(x)`
    fn piece(&self, i: usize, x: f64) -> f64;
    /// A fresh `PiecewiseEvaluator` as a closure.
    fn evaluator<'a>(&'a self) -> Box<dyn FnMut(f64) -> f64 + 'a>;
    /// A fresh `PiecewiseEvaluator` on the sub-slice `segments[from..]` of this function's storage.
    fn evaluator_from<'a>(&'a self, from: usize) -> Box<dyn FnMut(f64) -> f64 + 'a>;
    /// An independent function made of a copy of `segments[from..]` (the reference for such an evaluator).
    fn tail_clone(&self, from: usize) -> Box<dyn Target>;
    /// Change the function in place through its public API / public fields.
    fn mutate(&mut self, how: Mutation, by: f64);
    /// A fresh `evaluate_v` stream over the given feed.
    fn stream<'a>(&'a self, feed: SimFeed) -> Box<dyn Iterator<Item = f64> + 'a>;
    /// A fresh `evaluate_v` stream over `xs`, consumed in one go by the given consumer method of
    /// the concrete iterator type the library returns.
    fn stream_batch(&self, mode: crate::cursor::BatchMode, xs: &[f64]) -> BatchOut;
}

#[derive(Clone, Copy, Debug, PartialEq, Eq)]
pub enum Mutation {
    /// `Translate::translate(by)` on the piecewise function
    Translate,
    /// `segments[i].end += by` for every segment (public field; order and ties are preserved)
    ShiftEnds,
}

pub struct BatchOut {
    /// (index in the argument sequence, value) of every result observed
    pub values: Vec<(usize, f64)>,
    pub expected_values: usize,
    pub count: Option<usize>,
    /// what `count` should be when it is not the number of arguments (two-stage chains)
    pub count_due: Option<usize>,
    pub size_hint: Option<(usize, Option<usize>)>,
    /// inputs pulled from the simulator's feed
    pub pulled: u64,
}

impl<T: Piece> Target for Piecewise<T> {
    fn kind(&self) -> Kind {
        T::kind()
    }
    fn coefs(&self, i: usize) -> Vec<f64> {
        let mut b = Vec::new();
        self.segments[i].poly.bits(&mut b);
        if T::NC == 0 || T::kind() == Kind::W {
            b.remove(0); // PolyN / nested piecewise: drop the length word
        }
        b.into_iter().map(f64::from_bits).collect()
    }
    fn len(&self) -> usize {
        self.segments.len()
    }
    fn end(&self, i: usize) -> f64 {
        self.segments[i].end
    }
    fn direct(&self, x: f64) -> f64 {
        self.evaluate(x)
    }
    fn piece(&self, i: usize, x: f64) -> f64 {
        self.segments[i].evaluate(x)
    }
    fn evaluator<'a>(&'a self) -> Box<dyn FnMut(f64) -> f64 + 'a> {
        let mut ev = PiecewiseEvaluator::new(&self.segments);
        Box::new(move |x| ev.evaluate(x))
    }
    fn evaluator_from<'a>(&'a self, from: usize) -> Box<dyn FnMut(f64) -> f64 + 'a> {
        let mut ev = PiecewiseEvaluator::new(&self.segments[from..]);
        Box::new(move |x| ev.evaluate(x))
    }
    fn tail_clone(&self, from: usize) -> Box<dyn Target> {
        Box::new(Piecewise { segments: self.segments[from..].to_vec() })
    }
    fn mutate(&mut self, how: Mutation, by: f64) {
        match how {
            Mutation::Translate => self.translate(by),
            Mutation::ShiftEnds => {
                for s in self.segments.iter_mut() {
                    s.end += by;
                }
            }
        }
    }
    fn stream<'a>(&'a self, feed: SimFeed) -> Box<dyn Iterator<Item = f64> + 'a> {
        Box::new(self.evaluate_v(feed))
    }
    fn stream_batch(&self, mode: crate::cursor::BatchMode, xs: &[f64]) -> BatchOut {
        use crate::cursor::BatchMode as M;
        let feed = SimFeed::new();
        for &x in xs {
            feed.push(x);
        }
        let n = xs.len();
        let mut out = BatchOut { values: Vec::new(), expected_values: n, count: None, count_due: None, size_hint: None, pulled: 0 };
        match mode {
            M::Collect => {
                let v: Vec<f64> = self.evaluate_v(feed.clone()).collect();
                out.values = v.into_iter().enumerate().collect();
            }
            M::Fold => {
                let v = self.evaluate_v(feed.clone()).fold(Vec::new(), |mut acc, y| {
                    acc.push(y);
                    acc
                });
                out.values = v.into_iter().enumerate().collect();
            }
            M::Count => {
                out.count = Some(self.evaluate_v(feed.clone()).count());
                out.expected_values = 0;
            }
            M::Last => {
                if let Some(y) = self.evaluate_v(feed.clone()).last() {
                    out.values.push((n - 1, y));
                }
                out.expected_values = usize::from(n > 0);
            }
            M::Nth(k) => {
                let mut it = self.evaluate_v(feed.clone());
                if let Some(y) = it.nth(k) {
                    out.values.push((k, y));
                }
                for (j, y) in it.enumerate() {
                    out.values.push((k + 1 + j, y));
                }
                out.expected_values = n.saturating_sub(k);
            }
            M::Skip(k) => {
                let v: Vec<f64> = self.evaluate_v(feed.clone()).skip(k).collect();
                out.values = v.into_iter().enumerate().map(|(j, y)| (k + j, y)).collect();
                out.expected_values = n.saturating_sub(k);
            }
            M::StepBy(k) => {
                let k = k.max(1);
                let v: Vec<f64> = self.evaluate_v(feed.clone()).step_by(k).collect();
                out.values = v.into_iter().enumerate().map(|(j, y)| (j * k, y)).collect();
                out.expected_values = n.div_ceil(k);
            }
            M::Peekable => {
                let mut it = self.evaluate_v(feed.clone()).peekable();
                let mut j = 0;
                loop {
                    let peeked = it.peek().copied();
                    match it.next() {
                        Some(y) => {
                            // what was peeked is what comes next
                            out.values.push((j, if peeked.map(f64::to_bits) == Some(y.to_bits()) || peeked.map_or(false, |p| p.is_nan() && y.is_nan()) { y } else { f64::NAN }));
                            j += 1;
                        }
                        None => break,
                    }
                }
            }
            M::ByRefTake(k) => {
                let mut it = self.evaluate_v(feed.clone());
                let head: Vec<f64> = it.by_ref().take(k).collect();
                let taken = head.len();
                out.values = head.into_iter().enumerate().collect();
                for (j, y) in it.enumerate() {
                    out.values.push((taken + j, y));
                }
            }
            M::Chain { head, k, tail, vec_input } => {
                if vec_input {
                    run_chain(self.evaluate_v(xs.to_vec()), head, k, tail, n, &mut out);
                } else {
                    run_chain(self.evaluate_v(feed.clone()), head, k, tail, n, &mut out);
                }
            }
            M::CycleInput => {
                if n > 0 {
                    let v: Vec<f64> = self.evaluate_v(xs.to_vec().into_iter().cycle()).take(n).collect();
                    out.values = v.into_iter().enumerate().collect();
                } else {
                    out.expected_values = 0;
                }
            }
            M::SizeHint => {
                let it = self.evaluate_v(feed.clone());
                out.size_hint = Some(it.size_hint());
                let v: Vec<f64> = it.collect();
                out.values = v.into_iter().enumerate().collect();
            }
            M::VecInput => {
                let it = self.evaluate_v(xs.to_vec());
                out.size_hint = Some(it.size_hint());
                let v: Vec<f64> = it.collect();
                out.values = v.into_iter().enumerate().collect();
            }
        }
        out.pulled = feed.pulls();
        out
    }
}

/// Two-stage consumption of one `evaluate_v` stream (see `BatchMode::Chain`). Never polls the stream
/// again after it has returned `None` (the generator keeps `k` within the sequence).
fn run_chain<I: Iterator<Item = f64>>(mut it: I, head: u8, k: usize, tail: u8, n: usize, out: &mut BatchOut) {
    // (first index, stride, number of elements) of what the tail stage will see
    let (base, stride, cnt);
    out.values.clear();
    fn finish<J: Iterator<Item = f64>>(r: J, tail: u8, base: usize, stride: usize, cnt: usize, out: &mut BatchOut) {
        let seen = out.values.len();
        match tail {
            0 => {
                let v = r.fold(Vec::new(), |mut acc, y| {
                    acc.push(y);
                    acc
                });
                out.values.extend(v.into_iter().enumerate().map(|(j, y)| (base + j * stride, y)));
                out.expected_values = seen + cnt;
            }
            1 => {
                let mut j = 0;
                let vals = &mut out.values;
                r.for_each(|y| {
                    vals.push((base + j * stride, y));
                    j += 1;
                });
                out.expected_values = seen + cnt;
            }
            2 => {
                if let Some(y) = r.last() {
                    out.values.push((base + cnt.saturating_sub(1) * stride, y));
                }
                out.expected_values = seen + usize::from(cnt > 0);
            }
            3 => {
                out.count = Some(r.count());
                out.count_due = Some(cnt);
                out.expected_values = seen;
            }
            _ => {
                let mut j = 0;
                for y in r {
                    out.values.push((base + j * stride, y));
                    j += 1;
                }
                out.expected_values = seen + cnt;
            }
        }
    }
    match head {
        0 => {
            let k = k.min(n);
            for j in 0..k {
                if let Some(y) = it.next() {
                    out.values.push((j, y));
                }
            }
            base = k;
            stride = 1;
            cnt = n - k;
            finish(it, tail, base, stride, cnt, out);
        }
        1 if n > 0 => {
            let k = k.min(n - 1);
            if let Some(y) = it.nth(k) {
                out.values.push((k, y));
            }
            base = k + 1;
            stride = 1;
            cnt = n - base;
            finish(it, tail, base, stride, cnt, out);
        }
        2 | 1 => {
            let k = k.min(n);
            base = k;
            stride = 1;
            cnt = n - k;
            finish(it.skip(k), tail, base, stride, cnt, out);
        }
        3 => {
            let k = k.min(n);
            {
                let vals = &mut out.values;
                let mut j = 0;
                it.by_ref().take(k).for_each(|y| {
                    vals.push((j, y));
                    j += 1;
                });
            }
            base = k;
            stride = 1;
            cnt = n - k;
            finish(it, tail, base, stride, cnt, out);
        }
        _ => {
            let k = k.max(1);
            base = 0;
            stride = k;
            cnt = n.div_ceil(k);
            finish(it.step_by(k), tail, base, stride, cnt, out);
        }
    }
}

/// `first i with ends[i] > x, else len-1` — the whole reference model of segment selection.
#[inline]
pub fn select(ends: &[f64], x: f64) -> usize {
    for (i, &e) in ends.iter().enumerate() {
        if e > x {
            return i;
        }
    }
    ends.len() - 1
}

/// Equal as answers: identical bits, or both NaN (payloads are unspecified by Rust).
#[inline]
pub fn same(a: f64, b: f64) -> bool {
    a.to_bits() == b.to_bits() || (a.is_nan() && b.is_nan())
}

//! The pipe world (C18): every serializable type of the library pushed through real
//! codecs (serde_json with float_roundtrip, serde_cbor, and borsh in the `borsh` build)
//! over a simulator-owned byte pipe whose writer accepts and whose reader returns a
//! seeded number of bytes per call and which interrupts calls with
//! `ErrorKind::Interrupted`. These are legal behaviours of any reader/writer; the round
//! trip must survive them bit for bit, and must equal the fault-free transfer.

use crate::engine::*;
use crate::pieces::*;
use crate::rng::{Digest, Rng};
use piecewise_polynomial::*;
use serde::de::DeserializeOwned;
use serde::Serialize;
use serde_json::{json, Value};

#[derive(Clone, Copy, Debug, PartialEq, Eq)]
pub enum Shape {
    Knot,
    Piece,
    Segment,
    Piecewise,
}

#[derive(Clone, Copy, Debug, PartialEq, Eq)]
pub enum Codec {
    Json,
    Cbor,
    Borsh,
    /// serde_cbor's packed format: struct fields keyed by index instead of by name (a positional family)
    CborPacked,
    /// through a serde_json::Value tree (to_value / from_value), then text
    JsonValue,
    /// pretty-printed JSON text, read back with `from_str` (borrowed input)
    JsonPretty,
    /// the harness's own positional, non-self-describing format (`poscodec`): drives `visit_seq`
    Positional,
    /// the same with struct names written and checked (RON `struct_names` style)
    PositionalNamed,
    /// human-readable positional format whose numbers travel as text (query-string / INI / XML style)
    Text,
}

/// How the value under test is embedded in what is actually sent.
#[derive(Clone, Copy, Debug, PartialEq, Eq)]
pub enum Wrap {
    None,
    /// `vec![v, v]`
    Vec2,
    /// `Some(v)`
    Some,
    /// `(v, v)`
    Pair,
    /// `Box::new(v)`
    Boxed,
    /// inside a user enum with `#[serde(untagged)]` (self-describing serde formats only: serde buffers
    /// the content and replays it to each variant)
    Untagged,
}

/// A user-side enum around the value under test.
#[derive(Serialize, serde::Deserialize, PartialEq, Debug, Clone)]
#[cfg_attr(feature = "borsh", derive(borsh::BorshSerialize, borsh::BorshDeserialize))]
#[serde(untagged)]
pub enum UntaggedUser<V> {
    It(V),
}

impl Codec {
    fn name(self) -> &'static str {
        match self {
            Codec::Json => "serde_json",
            Codec::Cbor => "serde_cbor",
            Codec::Borsh => "borsh",
            Codec::CborPacked => "serde_cbor(packed)",
            Codec::JsonValue => "serde_json(Value tree)",
            Codec::JsonPretty => "serde_json(pretty, from_str)",
            Codec::Positional => "positional(visit_seq)",
            Codec::PositionalNamed => "positional(visit_seq, struct names checked)",
            Codec::Text => "text(human-readable, numbers as strings)",
        }
    }
}

#[derive(Clone, Copy, Debug, PartialEq)]
pub struct PipeCfg {
    /// most bytes accepted by one `write` (>= 1)
    pub wmax: usize,
    /// most bytes returned by one `read` (>= 1)
    pub rmax: usize,
    /// percentage of calls that return `Interrupted` instead of making progress
    pub eintr_w_pct: u32,
    pub eintr_r_pct: u32,
    /// seed of the pipe's own chunk/interrupt choices (explicit in the replay file)
    pub seed: u64,
}

#[derive(Clone, Debug)]
pub struct PipeScn {
    pub shape: Shape,
    pub kind: Kind,
    pub nseg: usize,
    pub nums: Vec<f64>,
    pub codec: Codec,
    pub wrap: Wrap,
    pub pipe: PipeCfg,
}

pub const BUILD: &str = if cfg!(feature = "borsh") { "borsh" } else { "default" };

#[derive(Default)]
pub struct PipeStats {
    pub writes: u64,
    pub short_writes: u64,
    pub eintr_w: u64,
    pub reads: u64,
    pub short_reads: u64,
    pub eintr_r: u64,
    pub one_byte_reads: u64,
    pub f64_split_reads: u64,
}

/// The write end.
pub struct PipeW<'a> {
    pub buf: Vec<u8>,
    cfg: PipeCfg,
    rng: Rng,
    consecutive_eintr: u32,
    stats: &'a mut PipeStats,
    /// hard-error fault: once this many bytes have been accepted every further `write` fails with a
    /// non-retryable error ("no space left on device"); `None` = the pipe never fails
    fail_after: Option<usize>,
}

/// The read end.
pub struct PipeR<'a> {
    data: &'a [u8],
    pos: usize,
    cfg: PipeCfg,
    rng: Rng,
    consecutive_eintr: u32,
    stats: &'a mut PipeStats,
}

impl<'a> PipeW<'a> {
    fn new(cfg: PipeCfg, stats: &'a mut PipeStats) -> Self {
        PipeW { buf: Vec::new(), cfg, rng: Rng::new(cfg.seed ^ 0x57), consecutive_eintr: 0, stats, fail_after: None }
    }
    /// `Some(())` when the hard-error fault is due for this call
    fn full(&self, data: &[u8]) -> bool {
        matches!(self.fail_after, Some(limit) if !data.is_empty() && self.buf.len() >= limit)
    }
    /// Ok(n) or Err(()) = interrupted
    fn do_write(&mut self, data: &[u8]) -> Result<usize, ()> {
        if self.consecutive_eintr < 3 && self.rng.below(100) < self.cfg.eintr_w_pct as u64 {
            self.consecutive_eintr += 1;
            self.stats.eintr_w += 1;
            return Err(());
        }
        self.consecutive_eintr = 0;
        if data.is_empty() {
            return Ok(0);
        }
        let mut n = data.len().min(1 + self.rng.below(self.cfg.wmax as u64) as usize);
        if let Some(limit) = self.fail_after {
            n = n.min(limit - self.buf.len()).max(1);
        }
        self.buf.extend_from_slice(&data[..n]);
        self.stats.writes += 1;
        if n < data.len() {
            self.stats.short_writes += 1;
        }
        Ok(n)
    }
}

impl<'a> PipeR<'a> {
    fn new(data: &'a [u8], cfg: PipeCfg, stats: &'a mut PipeStats) -> Self {
        PipeR { data, pos: 0, cfg, rng: Rng::new(cfg.seed ^ 0x52), consecutive_eintr: 0, stats }
    }
    fn do_read(&mut self, out: &mut [u8]) -> Result<usize, ()> {
        if self.consecutive_eintr < 3 && self.rng.below(100) < self.cfg.eintr_r_pct as u64 {
            self.consecutive_eintr += 1;
            self.stats.eintr_r += 1;
            return Err(());
        }
        self.consecutive_eintr = 0;
        let left = self.data.len() - self.pos;
        if out.is_empty() || left == 0 {
            return Ok(0);
        }
        let n = out.len().min(left).min(1 + self.rng.below(self.cfg.rmax as u64) as usize);
        out[..n].copy_from_slice(&self.data[self.pos..self.pos + n]);
        self.pos += n;
        self.stats.reads += 1;
        if n < out.len().min(left) {
            self.stats.short_reads += 1;
            if out.len() == 8 {
                self.stats.f64_split_reads += 1;
            }
        }
        if n == 1 {
            self.stats.one_byte_reads += 1;
        }
        Ok(n)
    }
}

impl std::io::Write for PipeW<'_> {
    fn write(&mut self, data: &[u8]) -> std::io::Result<usize> {
        if self.full(data) {
            return Err(std::io::Error::new(std::io::ErrorKind::Other, "simulated: no space left on device"));
        }
        self.do_write(data).map_err(|_| std::io::Error::from(std::io::ErrorKind::Interrupted))
    }
    fn flush(&mut self) -> std::io::Result<()> {
        Ok(())
    }
}
impl std::io::Read for PipeR<'_> {
    fn read(&mut self, out: &mut [u8]) -> std::io::Result<usize> {
        self.do_read(out).map_err(|_| std::io::Error::from(std::io::ErrorKind::Interrupted))
    }
}
#[cfg(feature = "borsh")]
impl borsh::io::Write for PipeW<'_> {
    fn write(&mut self, data: &[u8]) -> borsh::io::Result<usize> {
        if self.full(data) {
            return Err(borsh::io::Error::new(borsh::io::ErrorKind::Other, "simulated: no space left on device"));
        }
        self.do_write(data).map_err(|_| borsh::io::Error::from(borsh::io::ErrorKind::Interrupted))
    }
    fn flush(&mut self) -> borsh::io::Result<()> {
        Ok(())
    }
}
#[cfg(feature = "borsh")]
impl borsh::io::Read for PipeR<'_> {
    fn read(&mut self, out: &mut [u8]) -> borsh::io::Result<usize> {
        self.do_read(out).map_err(|_| borsh::io::Error::from(borsh::io::ErrorKind::Interrupted))
    }
}

#[cfg(feature = "borsh")]
pub trait MaybeBorsh: borsh::BorshSerialize + borsh::BorshDeserialize {}
#[cfg(feature = "borsh")]
impl<T: borsh::BorshSerialize + borsh::BorshDeserialize> MaybeBorsh for T {}
#[cfg(not(feature = "borsh"))]
pub trait MaybeBorsh {}
#[cfg(not(feature = "borsh"))]
impl<T> MaybeBorsh for T {}

pub trait Wire: Serialize + DeserializeOwned + MaybeBorsh + PartialEq + std::fmt::Debug {}
impl<T: Serialize + DeserializeOwned + MaybeBorsh + PartialEq + std::fmt::Debug> Wire for T {}

fn encode_plain<V: Wire>(codec: Codec, v: &V) -> Result<Vec<u8>, String> {
    match codec {
        Codec::Json => serde_json::to_vec(v).map_err(|e| e.to_string()),
        Codec::JsonValue => serde_json::to_value(v).and_then(|t| serde_json::to_vec(&t)).map_err(|e| e.to_string()),
        Codec::JsonPretty => serde_json::to_vec_pretty(v).map_err(|e| e.to_string()),
        Codec::Positional => crate::poscodec::to_vec(v).map_err(|e| e.to_string()),
        Codec::PositionalNamed => crate::poscodec::to_vec_opt(v, true).map_err(|e| e.to_string()),
        Codec::Text => crate::poscodec::to_vec_text(v).map_err(|e| e.to_string()),
        Codec::Cbor => serde_cbor::to_vec(v).map_err(|e| e.to_string()),
        Codec::CborPacked => serde_cbor::ser::to_vec_packed(v).map_err(|e| e.to_string()),
        #[cfg(feature = "borsh")]
        Codec::Borsh => borsh::to_vec(v).map_err(|e| format!("{e:?}")),
        #[cfg(not(feature = "borsh"))]
        Codec::Borsh => Err("borsh codec needs the borsh build".into()),
    }
}
fn decode_plain<V: Wire>(codec: Codec, b: &[u8]) -> Result<V, String> {
    match codec {
        Codec::Json => serde_json::from_slice(b).map_err(|e| e.to_string()),
        Codec::JsonValue => serde_json::from_slice::<serde_json::Value>(b).and_then(serde_json::from_value).map_err(|e| e.to_string()),
        Codec::JsonPretty => std::str::from_utf8(b).map_err(|e| e.to_string()).and_then(|s| serde_json::from_str(s).map_err(|e| e.to_string())),
        Codec::Positional => crate::poscodec::from_slice(b).map_err(|e| e.to_string()),
        Codec::PositionalNamed => crate::poscodec::from_reader_opt(b, true).map_err(|e| e.to_string()),
        Codec::Text => crate::poscodec::from_reader_text(b).map_err(|e| e.to_string()),
        Codec::Cbor | Codec::CborPacked => serde_cbor::from_slice(b).map_err(|e| e.to_string()),
        #[cfg(feature = "borsh")]
        Codec::Borsh => borsh::from_slice(b).map_err(|e| format!("{e:?}")),
        #[cfg(not(feature = "borsh"))]
        Codec::Borsh => Err("borsh codec needs the borsh build".into()),
    }
}
fn encode_piped<V: Wire>(codec: Codec, v: &V, w: &mut PipeW) -> Result<(), String> {
    match codec {
        Codec::Json => serde_json::to_writer(w, v).map_err(|e| e.to_string()),
        Codec::JsonValue => serde_json::to_value(v).and_then(|t| serde_json::to_writer(w, &t)).map_err(|e| e.to_string()),
        Codec::JsonPretty => serde_json::to_writer_pretty(w, v).map_err(|e| e.to_string()),
        Codec::Positional => crate::poscodec::to_writer(w, v).map_err(|e| e.to_string()),
        Codec::PositionalNamed => crate::poscodec::to_writer_opt(w, v, true).map_err(|e| e.to_string()),
        Codec::Text => crate::poscodec::to_writer_text(w, v).map_err(|e| e.to_string()),
        Codec::Cbor => serde_cbor::to_writer(w, v).map_err(|e| e.to_string()),
        Codec::CborPacked => {
            let mut ser = serde_cbor::Serializer::new(serde_cbor::ser::IoWrite::new(w)).packed_format();
            Serialize::serialize(v, &mut ser).map_err(|e| e.to_string())
        }
        #[cfg(feature = "borsh")]
        Codec::Borsh => borsh::to_writer(w, v).map_err(|e| format!("{e:?}")),
        #[cfg(not(feature = "borsh"))]
        Codec::Borsh => Err("borsh codec needs the borsh build".into()),
    }
}
fn decode_piped<V: Wire>(codec: Codec, r: &mut PipeR) -> Result<V, String> {
    match codec {
        Codec::Json => serde_json::from_reader(r).map_err(|e| e.to_string()),
        Codec::JsonValue => serde_json::from_reader::<_, serde_json::Value>(r).and_then(serde_json::from_value).map_err(|e| e.to_string()),
        Codec::JsonPretty => serde_json::from_reader(r).map_err(|e| e.to_string()),
        Codec::Positional => crate::poscodec::from_reader(r).map_err(|e| e.to_string()),
        Codec::PositionalNamed => crate::poscodec::from_reader_opt(r, true).map_err(|e| e.to_string()),
        Codec::Text => crate::poscodec::from_reader_text(r).map_err(|e| e.to_string()),
        Codec::Cbor | Codec::CborPacked => serde_cbor::from_reader(r).map_err(|e| e.to_string()),
        #[cfg(feature = "borsh")]
        Codec::Borsh => borsh::from_reader(r).map_err(|e| format!("{e:?}")),
        #[cfg(not(feature = "borsh"))]
        Codec::Borsh => Err("borsh codec needs the borsh build".into()),
    }
}

fn hex_bits(b: &[u64]) -> String {
    b.iter().map(|w| format!("{w:016x}")).collect::<Vec<_>>().join(" ")
}

/// The value itself, or embedded in a standard container, through one codec.
fn roundtrip<V: Wire + Clone>(
    v: &V,
    walk: &dyn Fn(&V, &mut Vec<u64>),
    scn: &PipeScn,
    cov: &mut Cov,
    prog: &Progress,
) -> Result<u64, (String, String)>
where
    Vec<V>: Wire,
    Option<V>: Wire,
    (V, V): Wire,
    Box<V>: Wire,
    UntaggedUser<V>: Wire,
{
    match scn.wrap {
        Wrap::None => roundtrip_one(v, walk, scn, cov, prog),
        Wrap::Vec2 => roundtrip_one(
            &vec![v.clone(), v.clone()],
            &|w: &Vec<V>, out: &mut Vec<u64>| {
                out.push(w.len() as u64);
                for x in w {
                    walk(x, out);
                }
            },
            scn,
            cov,
            prog,
        ),
        Wrap::Some => roundtrip_one(
            &Some(v.clone()),
            &|w: &Option<V>, out: &mut Vec<u64>| match w {
                Some(x) => {
                    out.push(1);
                    walk(x, out)
                }
                None => out.push(0),
            },
            scn,
            cov,
            prog,
        ),
        Wrap::Pair => roundtrip_one(
            &(v.clone(), v.clone()),
            &|w: &(V, V), out: &mut Vec<u64>| {
                walk(&w.0, out);
                walk(&w.1, out);
            },
            scn,
            cov,
            prog,
        ),
        Wrap::Boxed => roundtrip_one(&Box::new(v.clone()), &|w: &Box<V>, out: &mut Vec<u64>| walk(w, out), scn, cov, prog),
        Wrap::Untagged => {
            if matches!(scn.codec, Codec::Json | Codec::JsonValue | Codec::JsonPretty | Codec::Cbor | Codec::CborPacked) {
                roundtrip_one(&UntaggedUser::It(v.clone()), &|w: &UntaggedUser<V>, out: &mut Vec<u64>| match w {
                    UntaggedUser::It(x) => walk(x, out),
                }, scn, cov, prog)
            } else {
                roundtrip_one(v, walk, scn, cov, prog)
            }
        }
    }
}

/// One value through one codec: fault-free first, then over the faulty pipe.
fn roundtrip_one<V: Wire>(
    v: &V,
    walk: &dyn Fn(&V, &mut Vec<u64>),
    scn: &PipeScn,
    cov: &mut Cov,
    prog: &Progress,
) -> Result<u64, (String, String)> {
    let codec = scn.codec;
    let what = format!(
        "{}{} via {} ({} build)",
        type_name(scn),
        match scn.wrap {
            Wrap::None => "",
            Wrap::Vec2 => " sent as vec![v, v]",
            Wrap::Some => " sent as Some(v)",
            Wrap::Pair => " sent as (v, v)",
            Wrap::Boxed => " sent as Box<v>",
            Wrap::Untagged => " sent inside an untagged user enum",
        },
        codec.name(),
        BUILD
    );
    let mut want = Vec::new();
    walk(v, &mut want);
    let mut dig = Digest::new();
    // --- fault: a failed attempt first ---------------------------------------------------------
    // In a quarter of the runs the value is first serialized into a pipe whose write end fails hard
    // ("no space left") after a few bytes. That attempt may fail - it is not judged beyond "no panic" -
    // but it must leave nothing behind: the transfers below are the caller's retry and are judged as
    // usual. (What a serializer with a reusable scratch buffer gets wrong after an early `?` return.)
    if scn.pipe.seed & 3 == 1 {
        let mut st = PipeStats::default();
        let mut w = PipeW::new(scn.pipe, &mut st);
        w.fail_after = Some((Rng::new(scn.pipe.seed ^ 0xD0).below(48)) as usize);
        prog.tick();
        cov.events += 1;
        match guard(|| encode_piped(codec, v, &mut w)) {
            Err(p) => return Err(("panic".to_string(), format!("{what}: serialization into a pipe whose writer fails (no space left) panicked: {p}"))),
            Ok(Err(_)) => cov.hit("fault_write_error_then_retry"),
            Ok(Ok(())) => cov.hit("note_failing_pipe_was_large_enough"),
        }
    }
    // --- fault-free transfer ---------------------------------------------------------------
    prog.tick();
    cov.events += 1;
    let wire = guard(|| encode_plain(codec, v))
        .map_err(|p| ("panic".to_string(), format!("{what}: serialization panicked: {p}")))?
        .map_err(|e| ("codec-error".to_string(), format!("{what}: serialization failed: {e}")))?;
    prog.tick();
    let back: V = guard(|| decode_plain::<V>(codec, &wire))
        .map_err(|p| ("panic".to_string(), format!("{what}: deserialization panicked: {p}")))?
        .map_err(|e| ("codec-error".to_string(), format!("{what}: deserializing what was just serialized failed: {e}")))?;
    let mut got = Vec::new();
    walk(&back, &mut got);
    if got != want || back != *v {
        return Err((
            "roundtrip".into(),
            format!("{what}: fault-free round trip changed the value: sent [{}] received [{}] ({:?} -> {:?})", hex_bits(&want), hex_bits(&got), v, back),
        ));
    }
    cov.hit("transfers_fault_free");
    for &b in &wire {
        dig.word(b as u64);
    }
    // --- transfer over the faulty pipe ----------------------------------------------------------
    let mut stats = PipeStats::default();
    let piped = {
        let mut w = PipeW::new(scn.pipe, &mut stats);
        prog.tick();
        cov.events += 1;
        guard(|| encode_piped(codec, v, &mut w))
            .map_err(|p| ("panic".to_string(), format!("{what}: serialization into the pipe panicked: {p}")))?
            .map_err(|e| ("io-fault".to_string(), format!("{what}: serialization failed under short/interrupted writes (wmax={}, eintr={}%): {e}", scn.pipe.wmax, scn.pipe.eintr_w_pct)))?;
        w.buf
    };
    if piped != wire {
        // not what the property states (only the value that comes back matters): counted, not judged
        cov.hit("note_wire_bytes_differ_under_chunking");
    }
    let back2: V = {
        let mut r = PipeR::new(&piped, scn.pipe, &mut stats);
        prog.tick();
        cov.events += 1;
        guard(|| decode_piped::<V>(codec, &mut r))
            .map_err(|p| ("panic".to_string(), format!("{what}: deserialization from the pipe panicked: {p}")))?
            .map_err(|e| ("io-fault".to_string(), format!("{what}: deserialization failed under short/interrupted reads (rmax={}, eintr={}%): {e}", scn.pipe.rmax, scn.pipe.eintr_r_pct)))?
    };
    let mut got2 = Vec::new();
    walk(&back2, &mut got2);
    if got2 != want || back2 != *v {
        return Err((
            "io-fault".into(),
            format!("{what}: round trip over the faulty pipe changed the value: sent [{}] received [{}]", hex_bits(&want), hex_bits(&got2)),
        ));
    }
    cov.hit("transfers_over_faulty_pipe");
    cov.add("pipe_writes", stats.writes);
    cov.add("fault_short_write", stats.short_writes);
    cov.add("fault_eintr_write", stats.eintr_w);
    cov.add("pipe_reads", stats.reads);
    cov.add("fault_short_read", stats.short_reads);
    cov.add("fault_eintr_read", stats.eintr_r);
    cov.add("probe_one_byte_reads", stats.one_byte_reads);
    cov.add("probe_read_split_inside_an_f64", stats.f64_split_reads);
    cov.add("wire_bytes", wire.len() as u64);
    // --- informational: corrupting faults are tallied, never judged -------------------------------
    if !wire.is_empty() && scn.pipe.seed & 7 == 0 {
        let mut rng = Rng::new(scn.pipe.seed ^ 0xC0);
        let mut bad = wire.clone();
        if rng.chance(1, 2) {
            bad.truncate(rng.below(wire.len() as u64) as usize);
            cov.hit("info_truncated_stream_decodes");
        } else {
            let i = rng.below(wire.len() as u64) as usize;
            bad[i] ^= 1 << rng.below(8);
            cov.hit("info_bit_flipped_stream_decodes");
        }
        match guard(|| decode_plain::<V>(codec, &bad)) {
            Err(_) => cov.hit("info_corrupt_stream_panicked"),
            Ok(Err(_)) => cov.hit("info_corrupt_stream_rejected"),
            Ok(Ok(x)) => {
                if x == *v {
                    cov.hit("info_corrupt_stream_same_value")
                } else {
                    cov.hit("info_corrupt_stream_other_value")
                }
            }
        }
    }
    Ok(dig.0)
}

fn type_name(scn: &PipeScn) -> String {
    match scn.shape {
        Shape::Knot => "Knot".into(),
        Shape::Piece => scn.kind.name(),
        Shape::Segment => format!("Segment<{}>", scn.kind.name()),
        Shape::Piecewise => format!("Piecewise<{}> with {} segments", scn.kind.name(), scn.nseg),
    }
}

fn run_kind<T: Piece + Wire>(scn: &PipeScn, cov: &mut Cov, prog: &Progress) -> Result<u64, (String, String)>
where
    Segment<T>: Wire,
    Piecewise<T>: Wire,
{
    let nc = T::NC;
    match scn.shape {
        Shape::Knot => unreachable!(),
        Shape::Piece => {
            let v = T::from_c(&scn.nums);
            roundtrip(&v, &|v: &T, out: &mut Vec<u64>| v.bits(out), scn, cov, prog)
        }
        Shape::Segment => {
            let v = Segment { end: scn.nums[0], poly: T::from_c(&scn.nums[1..]) };
            roundtrip(
                &v,
                &|v: &Segment<T>, out: &mut Vec<u64>| {
                    out.push(v.end.to_bits());
                    v.poly.bits(out)
                },
                scn,
                cov,
                prog,
            )
        }
        Shape::Piecewise => {
            let v = Piecewise {
                segments: (0..scn.nseg)
                    .map(|i| {
                        let s = &scn.nums[i * (nc + 1)..(i + 1) * (nc + 1)];
                        Segment { end: s[0], poly: T::from_c(&s[1..]) }
                    })
                    .collect(),
            };
            // `Deserialize::deserialize_in_place` into an existing, LONGER value must give the same result
            if scn.wrap == Wrap::None && matches!(scn.codec, Codec::Json | Codec::Positional) && scn.nseg <= 300 {
                let what = format!("Piecewise<{}> with {} segments via {} ({} build), deserialize_in_place into a value that already holds {} segments", scn.kind.name(), scn.nseg, scn.codec.name(), BUILD, 2 * scn.nseg + 1);
                let wire = guard(|| encode_plain(scn.codec, &v))
                    .map_err(|p| ("panic".to_string(), format!("{what}: serialization panicked: {p}")))?
                    .map_err(|e| ("codec-error".to_string(), format!("{what}: serialization failed: {e}")))?;
                let mut place = v.clone();
                place.segments.extend(v.segments.iter().cloned());
                place.segments.push(Segment { end: 1.5, poly: T::from_c(&vec![0.25; nc.max(1)]) });
                let r = guard(|| match scn.codec {
                    Codec::Json => {
                        let mut de = serde_json::Deserializer::from_slice(&wire);
                        serde::Deserialize::deserialize_in_place(&mut de, &mut place).map_err(|e| e.to_string())
                    }
                    _ => crate::poscodec::from_slice_in_place(&wire, &mut place).map_err(|e| e.to_string()),
                });
                match r {
                    Err(p) => return Err(("panic".into(), format!("{what}: panicked: {p}"))),
                    Ok(Err(e)) => return Err(("codec-error".into(), format!("{what}: failed: {e}"))),
                    Ok(Ok(())) => {
                        if place != v {
                            return Err(("roundtrip".into(), format!("{what}: the result has {} segments and differs from the value sent", place.segments.len())));
                        }
                        cov.hit("transfers_deserialize_in_place");
                    }
                }
            }
            roundtrip(
                &v,
                &|v: &Piecewise<T>, out: &mut Vec<u64>| {
                    out.push(v.segments.len() as u64);
                    for s in &v.segments {
                        out.push(s.end.to_bits());
                        s.poly.bits(out);
                    }
                },
                scn,
                cov,
                prog,
            )
        }
    }
}

fn expected_len(scn: &PipeScn) -> usize {
    match scn.shape {
        Shape::Knot => 2,
        Shape::Piece => scn.kind.nc(),
        Shape::Segment => scn.kind.nc() + 1,
        Shape::Piecewise => scn.nseg * (scn.kind.nc() + 1),
    }
}

fn valid(scn: &PipeScn) -> bool {
    if matches!(scn.kind, Kind::N | Kind::U) {
        return false;
    }
    if scn.nums.len() != expected_len(scn) || scn.nums.iter().any(|x| x.is_nan()) {
        return false;
    }
    if matches!(scn.codec, Codec::Json | Codec::JsonValue | Codec::JsonPretty) && scn.nums.iter().any(|x| !x.is_finite()) {
        return false;
    }
    scn.pipe.wmax >= 1 && scn.pipe.rmax >= 1 && scn.pipe.eintr_w_pct <= 90 && scn.pipe.eintr_r_pct <= 90
}

pub fn check_one(scn: &PipeScn, cov: &mut Cov, prog: &Progress) -> Result<u64, (String, String)> {
    if !valid(scn) {
        return Ok(0);
    }
    if scn.codec == Codec::Borsh && !cfg!(feature = "borsh") {
        return Ok(0);
    }
    if scn.shape == Shape::Knot {
        let v = Knot::new(scn.nums[0], scn.nums[1]);
        return roundtrip(
            &v,
            &|v: &Knot, out: &mut Vec<u64>| {
                out.push(v.x.to_bits());
                out.push(v.y.to_bits());
            },
            scn,
            cov,
            prog,
        );
    }
    macro_rules! go {
        ($T:ty) => {
            run_kind::<$T>(scn, cov, prog)
        };
    }
    match scn.kind {
        Kind::P(0) => go!(Poly0),
        Kind::P(1) => go!(Poly1),
        Kind::P(2) => go!(Poly2),
        Kind::P(3) => go!(Poly3),
        Kind::P(4) => go!(Poly4),
        Kind::P(5) => go!(Poly5),
        Kind::P(6) => go!(Poly6),
        Kind::P(7) => go!(Poly7),
        Kind::P(_) => go!(Poly8),
        Kind::L(0) => go!(Log<Poly0>),
        Kind::L(1) => go!(Log<Poly1>),
        Kind::L(2) => go!(Log<Poly2>),
        Kind::L(3) => go!(Log<Poly3>),
        Kind::L(4) => go!(Log<Poly4>),
        Kind::L(5) => go!(Log<Poly5>),
        Kind::L(6) => go!(Log<Poly6>),
        Kind::L(7) => go!(Log<Poly7>),
        Kind::L(_) => go!(Log<Poly8>),
        Kind::I(0) => go!(IntOfLog<Poly0>),
        Kind::I(1) => go!(IntOfLog<Poly1>),
        Kind::I(2) => go!(IntOfLog<Poly2>),
        Kind::I(3) => go!(IntOfLog<Poly3>),
        Kind::I(4) => go!(IntOfLog<Poly4>),
        Kind::I(5) => go!(IntOfLog<Poly5>),
        Kind::I(6) => go!(IntOfLog<Poly6>),
        Kind::I(7) => go!(IntOfLog<Poly7>),
        Kind::I(_) => go!(IntOfLog<Poly8>),
        Kind::Q => go!(IntOfLogPoly4),
        Kind::W => go!(Piecewise<Poly0>),
        Kind::N | Kind::U => Ok(0),
    }
}

// ---------------------------------------------------------------------------
// Generation
// ---------------------------------------------------------------------------

fn gen_num(rng: &mut Rng, finite_only: bool) -> f64 {
    loop {
        let x = match rng.below(12) {
            0..=3 => f64::from_bits(rng.next_u64()),
            4 => f64::from_bits(rng.next_u64() & 0x000f_ffff_ffff_ffff) * if rng.chance(1, 2) { 1.0 } else { -1.0 }, // subnormal
            5 => *rng.pick(&[0.0, -0.0]),
            6 => *rng.pick(&[f64::MAX, -f64::MAX, f64::MIN_POSITIVE, -f64::MIN_POSITIVE, 5e-324, -5e-324, f64::EPSILON]),
            7 => rng.range(-1000, 1000) as f64,
            8 => rng.uniform(-1.0, 1.0),
            // 17-significant-digit decimals and classic hard cases for decimal round trips
            9 => *rng.pick(&[0.1, 0.3, 1.0 / 3.0, 2.2250738585072011e-308, 1.7976931348623157e308, 9007199254740993.0, 5e-324, 1e23, 8.41e21, 2.0f64.powi(-1074) * 3.0]),
            10 => match rng.below(6) {
                0 => rng.uniform(-1e15, 1e15),
                // exactly representable in a narrower float (an "is it lossless as f32/f16?" shortcut
                // that then prints or stores the narrow value)
                4 => f64::from(f32::from_bits(rng.next_u64() as u32)),
                5 => f64::from(*rng.pick(&[0.1f32, 0.2, 0.3, 1.1, 3.3, 1e-3, 123.456, 1e6 + 0.1, 16777216.0, 0.007])) * if rng.chance(1, 2) { 1.0 } else { -1.0 },
                // whole numbers across magnitudes: integer detours (i64/u64/i128) break at their limits
                1 => {
                    let k = rng.usize_in(0, 130) as i32;
                    let b = 2f64.powi(k);
                    (b + *rng.pick(&[0.0, 1.0, -1.0, 2048.0, -1024.0])) * if rng.chance(1, 2) { 1.0 } else { -1.0 }
                }
                2 => *rng.pick(&[9223372036854775807.0, -9223372036854775808.0, 18446744073709551615.0, 9223372036854774784.0, 18446744073709549568.0, 4294967296.0, 2147483648.0, -2147483649.0, 16777217.0, 3.4028234663852886e38, 3.4028235677973366e38, 65504.0, 65520.0]),
                _ => (rng.next_u64() >> rng.below(12)) as f64,
            },
            _ => *rng.pick(&[f64::INFINITY, f64::NEG_INFINITY]),
        };
        if x.is_nan() || (finite_only && !x.is_finite()) {
            continue;
        }
        return x;
    }
}

fn codecs() -> &'static [Codec] {
    if cfg!(feature = "borsh") {
        &[Codec::Json, Codec::Cbor, Codec::CborPacked, Codec::JsonValue, Codec::JsonPretty, Codec::Positional, Codec::PositionalNamed, Codec::Text, Codec::Borsh, Codec::Borsh, Codec::Borsh]
    } else {
        &[Codec::Json, Codec::Cbor, Codec::CborPacked, Codec::JsonValue, Codec::JsonPretty, Codec::Positional, Codec::PositionalNamed, Codec::Text]
    }
}

fn ser_kinds() -> Vec<Kind> {
    Kind::all().into_iter().filter(|k| !matches!(k, Kind::N | Kind::U)).collect()
}

fn gen_scn(rng: &mut Rng, _tier: Tier) -> PipeScn {
    let codec = *rng.pick(codecs());
    let kinds = ser_kinds();
    let kind = *rng.pick(&kinds);
    let shape = match rng.below(20) {
        0 => Shape::Knot,
        1..=4 => Shape::Piece,
        5..=8 => Shape::Segment,
        _ => Shape::Piecewise,
    };
    let nseg = if shape == Shape::Piecewise {
        match rng.below(10) {
            0 => 0,
            1..=3 => 1,
            4..=6 => 2,
            7..=8 => rng.usize_in(3, 6),
            _ => match rng.below(40) {
                0..=33 => rng.usize_in(7, 40),
                // lengths a narrowed length prefix or a chunked encoder could hinge on
                34..=37 => *rng.pick(&[63usize, 64, 65, 127, 128, 255, 256, 257]),
                38 => *rng.pick(&[1000usize, 4095, 4096, 4097]),
                _ => {
                    if rng.chance(1, 20) {
                        *rng.pick(&[65535usize, 65536, 65537])
                    } else {
                        rng.usize_in(41, 300)
                    }
                }
            },
        }
    } else {
        0
    };
    // very long functions only over the smallest piece types (bounded wire size)
    let kind = if nseg > 300 { *rng.pick(&[Kind::P(0), Kind::P(1), Kind::L(0), Kind::I(0)]) } else { kind };
    let mut scn = PipeScn {
        shape,
        kind,
        nseg,
        nums: vec![],
        codec,
        wrap: match rng.below(10) {
            0 => Wrap::Vec2,
            1 => Wrap::Some,
            2 => Wrap::Pair,
            3 => Wrap::Boxed,
            4 => Wrap::Untagged,
            _ => Wrap::None,
        },
        pipe: PipeCfg {
            wmax: *rng.pick(&[1usize, 1, 2, 3, 7, 8, 9, 64, 4096]),
            rmax: *rng.pick(&[1usize, 1, 2, 3, 7, 8, 9, 64, 4096]),
            eintr_w_pct: *rng.pick(&[0u32, 0, 5, 20, 50]),
            eintr_r_pct: *rng.pick(&[0u32, 0, 5, 20, 50]),
            seed: rng.next_u64(),
        },
    };
    let n = expected_len(&scn);
    let finite_only = matches!(codec, Codec::Json | Codec::JsonValue | Codec::JsonPretty);
    scn.nums = (0..n).map(|_| gen_num(rng, finite_only)).collect();
    // equal fields (a codec or a custom impl that deduplicates / compares fields)
    match rng.below(12) {
        0 if n > 0 => {
            let v = scn.nums[0];
            for x in scn.nums.iter_mut() {
                *x = v;
            }
        }
        1 if n > 1 => {
            for i in 1..n {
                if rng.chance(1, 2) {
                    scn.nums[i] = scn.nums[i - 1];
                }
            }
        }
        _ => {}
    }
    scn
}

fn shrink(scn: &PipeScn) -> Vec<PipeScn> {
    let mut out = Vec::new();
    // simplest pipe first
    let calm = PipeCfg { wmax: 4096, rmax: 4096, eintr_w_pct: 0, eintr_r_pct: 0, seed: 0 };
    if scn.pipe != calm {
        let mut s = scn.clone();
        s.pipe = calm;
        out.push(s);
        for p in [
            PipeCfg { eintr_w_pct: 0, eintr_r_pct: 0, ..scn.pipe },
            PipeCfg { wmax: 1, rmax: 1, ..scn.pipe },
            PipeCfg { wmax: 4096, ..scn.pipe },
            PipeCfg { rmax: 4096, ..scn.pipe },
        ] {
            if p != scn.pipe {
                let mut s = scn.clone();
                s.pipe = p;
                out.push(s);
            }
        }
    }
    if scn.wrap != Wrap::None {
        let mut s = scn.clone();
        s.wrap = Wrap::None;
        out.push(s);
    }
    if scn.shape == Shape::Piecewise && scn.nseg > 0 {
        let w = scn.kind.nc() + 1;
        for (a, b) in removal_ranges(scn.nseg) {
            let mut s = scn.clone();
            s.nums.drain(a * w..b * w);
            s.nseg -= b - a;
            out.push(s);
        }
    }
    if scn.shape == Shape::Piecewise && scn.nseg == 1 {
        let mut s = scn.clone();
        s.shape = Shape::Segment;
        s.nseg = 0;
        out.push(s);
    }
    if scn.shape == Shape::Segment {
        let mut s = scn.clone();
        s.shape = Shape::Piece;
        s.nums.remove(0);
        out.push(s);
    }
    for i in 0..scn.nums.len().min(256) {
        for v in [0.0, 1.0, scn.nums[i].round()] {
            if v.to_bits() != scn.nums[i].to_bits() && v.is_finite() {
                let mut s = scn.clone();
                s.nums[i] = v;
                out.push(s);
            }
        }
    }
    out.retain(valid);
    out
}

fn to_json(scn: &PipeScn) -> Value {
    json!({
        "world": "pipe",
        "build": if scn.codec == Codec::Borsh { "borsh" } else { BUILD },
        "shape": match scn.shape { Shape::Knot => "Knot", Shape::Piece => "piece", Shape::Segment => "Segment", Shape::Piecewise => "Piecewise" },
        "piece_type": scn.kind.name(),
        "segments": scn.nseg,
        "numbers": fj_list(&scn.nums),
        "codec": scn.codec.name(),
        "sent_as": match scn.wrap { Wrap::None => "the value itself", Wrap::Vec2 => "vec![v, v]", Wrap::Some => "Some(v)", Wrap::Pair => "(v, v)", Wrap::Boxed => "Box::new(v)", Wrap::Untagged => "untagged user enum around v" },
        "pipe": {"max_bytes_per_write": scn.pipe.wmax, "max_bytes_per_read": scn.pipe.rmax, "interrupted_write_pct": scn.pipe.eintr_w_pct, "interrupted_read_pct": scn.pipe.eintr_r_pct, "pipe_seed": scn.pipe.seed},
    })
}

fn from_json(v: &Value) -> Result<PipeScn, String> {
    let shape = match jstr(v, "shape")? {
        "Knot" => Shape::Knot,
        "piece" => Shape::Piece,
        "Segment" => Shape::Segment,
        "Piecewise" => Shape::Piecewise,
        s => return Err(format!("bad shape {s}")),
    };
    let codec = match jstr(v, "codec")? {
        "serde_json" => Codec::Json,
        "serde_cbor" => Codec::Cbor,
        "borsh" => Codec::Borsh,
        "serde_cbor(packed)" => Codec::CborPacked,
        "serde_json(Value tree)" => Codec::JsonValue,
        "serde_json(pretty, from_str)" => Codec::JsonPretty,
        "positional(visit_seq)" => Codec::Positional,
        "positional(visit_seq, struct names checked)" => Codec::PositionalNamed,
        "text(human-readable, numbers as strings)" => Codec::Text,
        s => return Err(format!("bad codec {s}")),
    };
    if codec == Codec::Borsh && !cfg!(feature = "borsh") {
        return Err("this replay needs the borsh build of pwsim (use ./check replay)".into());
    }
    let p = v.get("pipe").ok_or("missing pipe")?;
    let scn = PipeScn {
        shape,
        kind: Kind::parse(jstr(v, "piece_type")?)?,
        nseg: jusize(v, "segments")?,
        nums: jf_list(v.get("numbers").ok_or("missing numbers")?)?,
        codec,
        wrap: match v.get("sent_as").and_then(|s| s.as_str()) {
            Some("vec![v, v]") => Wrap::Vec2,
            Some("Some(v)") => Wrap::Some,
            Some("(v, v)") => Wrap::Pair,
            Some("Box::new(v)") => Wrap::Boxed,
            Some("untagged user enum around v") => Wrap::Untagged,
            _ => Wrap::None,
        },
        pipe: PipeCfg {
            wmax: jusize(p, "max_bytes_per_write")?,
            rmax: jusize(p, "max_bytes_per_read")?,
            eintr_w_pct: jusize(p, "interrupted_write_pct")? as u32,
            eintr_r_pct: jusize(p, "interrupted_read_pct")? as u32,
            seed: p.get("pipe_seed").and_then(|s| s.as_u64()).ok_or("missing pipe_seed")?,
        },
    };
    if !valid(&scn) {
        return Err("scenario outside the property's quantifier (NaN content, non-finite number in a text format, or wrong number count)".into());
    }
    Ok(scn)
}

pub struct C18;

impl World for C18 {
    type Scn = PipeScn;
    fn prop(&self) -> &'static str {
        "C18"
    }
    fn level(&self) -> &'static str {
        "exploration"
    }
    fn default_runs(&self, tier: Tier) -> u64 {
        match tier {
            Tier::Quick => 600_000,
            Tier::Thorough => 20_000_000,
        }
    }
    fn generate(&self, rng: &mut Rng, tier: Tier) -> PipeScn {
        gen_scn(rng, tier)
    }
    fn explore(&self, base: &PipeScn, _tier: Tier, cov: &mut Cov, prog: &Progress) -> Outcome<PipeScn> {
        match check_one(base, cov, prog) {
            Ok(digest) => {
                if cov.enabled {
                    cov.hit(match base.codec {
                        Codec::Json => "codec_serde_json",
                        Codec::Cbor => "codec_serde_cbor",
                        Codec::Borsh => "codec_borsh",
                        Codec::CborPacked => "codec_serde_cbor_packed",
                        Codec::JsonValue => "codec_serde_json_value_tree",
                        Codec::JsonPretty => "codec_serde_json_pretty_from_str",
                        Codec::Positional => "codec_positional_visit_seq",
                        Codec::PositionalNamed => "codec_positional_named",
                        Codec::Text => "codec_text_numbers_as_strings",
                    });
                    cov.hit(match base.shape {
                        Shape::Knot => "shape_knot",
                        Shape::Piece => "shape_piece",
                        Shape::Segment => "shape_segment",
                        Shape::Piecewise => "shape_piecewise",
                    });
                    if base.shape == Shape::Piecewise && base.nseg == 0 {
                        cov.hit("probe_zero_segments");
                    }
                    if base.nums.iter().any(|x| *x == 0.0 && x.is_sign_negative()) {
                        cov.hit("probe_negative_zero_content");
                    }
                    if base.nums.iter().any(|x| x.is_infinite()) {
                        cov.hit("probe_infinite_content");
                    }
                    if base.nums.iter().any(|x| *x != 0.0 && !x.is_normal() && x.is_finite()) {
                        cov.hit("probe_subnormal_content");
                    }
                    // distinct = distinct (type instantiation, codec, number of segments, pipe parameters), non-trivial = holds >= 2 numbers
                    if base.nums.len() >= 2 {
                        let mut d = Digest::new();
                        d.word(base.shape as u64);
                        d.word(base.kind.index() as u64);
                        d.word(base.codec as u64);
                        d.word(base.nseg as u64);
                        d.word(base.pipe.wmax as u64);
                        d.word(base.pipe.rmax as u64);
                        d.word(base.pipe.eintr_w_pct as u64);
                        d.word(base.pipe.eintr_r_pct as u64);
                        cov.note_distinct(d.0);
                    }
                }
                Outcome { digest, violation: None }
            }
            Err((class, detail)) => Outcome {
                digest: 1,
                violation: Some(Violation { class, detail, scn: base.clone() }),
            },
        }
    }
    fn check(&self, scn: &PipeScn, cov: &mut Cov, prog: &Progress) -> Option<(String, String)> {
        check_one(scn, cov, prog).err()
    }
    fn shrink(&self, scn: &PipeScn) -> Vec<PipeScn> {
        shrink(scn)
    }
    fn to_json(&self, scn: &PipeScn) -> Value {
        to_json(scn)
    }
    fn from_json(&self, v: &Value) -> Result<PipeScn, String> {
        from_json(v)
    }
    fn signature(&self, class: &str, scn: &PipeScn) -> String {
        format!("{class}/{}/{}", scn.codec.name(), type_name(scn).split(' ').next().unwrap_or(""))
    }
    fn rule(&self) -> String {
        format!("({BUILD} build) Each run: one value of one of the 88 serializable type instantiations (Knot; Poly0..8, Log<Poly0..8>, IntOfLog<Poly0..8>, IntOfLogPoly4 and a nested Piecewise<Poly0> piece; Segment<X> and Piecewise<X> over those 29 piece types, 0-300 segments and a few threshold lengths up to 65 537), bare or inside Vec/Option/tuple/Box, with numbers drawn from random bit patterns, subnormals, +-0.0, extremes, hard decimal cases and (binary codecs) +-inf, never NaN; one codec ({}); first a fault-free transfer (to_vec/from_slice), then a transfer over the simulated pipe with a seeded maximum of bytes per write/read (1..4096) and a seeded rate of Interrupted results on both ends. Judged: value equal and bit-identical after both transfers (wire bytes differing between the two transfers are counted, not judged). distinct = distinct (type instantiation, codec, segment count, pipe parameters); non-trivial = the value holds >= 2 numbers. Corrupting faults (truncation, bit flip in flight) are tallied under counters.info_*, never judged.", { let mut n: Vec<&str> = codecs().iter().map(|c| c.name()).collect(); n.dedup(); n.join(", ") })
    }
    fn assumptions(&self) -> Vec<String> {
        vec![
            "serde_json is built with its float_roundtrip feature (its default parser may be 1 ulp off, which is the codec's choice, not the crate's)".into(),
            "the codecs (serde_json, serde_cbor, borsh) and serde itself are trusted dependencies; their handling of short and interrupted I/O was validated on the unchanged tree before being allowed to produce verdicts".into(),
            "NaN contents are outside the property; +-inf only with binary codecs".into(),
            "two builds: default features and --features borsh; this file merges both (coverage.borsh_build holds the second)".into(),
        ]
    }
    fn real_vs_stub(&self) -> Value {
        json!({
            "real": ["derive-generated Serialize/Deserialize (and BorshSerialize/BorshDeserialize in the borsh build) of every type of /repo", "serde_json 1.x (float_roundtrip), serde_cbor 0.11, borsh 1.x"],
            "simulated": ["the byte pipe between serializer and deserializer: bytes accepted per write, bytes returned per read, Interrupted results"],
            "reference_model": ["identity: the received value must equal the sent one bit for bit; faulted transfer == fault-free transfer"],
            "not_present_in_target": ["threads", "clocks/timers", "network", "disk"]
        })
    }
}

//! A minimal positional, non-self-describing serde format (in the style of bincode/postcard), written
//! for the pipe world: structs and tuples are sequences of their fields with no names on the wire, so
//! the derive-generated `visit_seq` paths run (JSON and CBOR, named or packed, drive `visit_map`).
//! Numbers are 8 little-endian bytes, sequences carry a u64 length prefix, `Option` a tag byte.
//! Reads and writes go through `std::io::{Read, Write}` and cope with short transfers and `Interrupted`.

use serde::de::{self, DeserializeSeed, SeqAccess, Visitor};
use serde::ser::{self, Serialize};
use std::fmt;
use std::io::{Read, Write};

#[derive(Debug)]
pub struct Error(pub String);

impl fmt::Display for Error {
    fn fmt(&self, f: &mut fmt::Formatter<'_>) -> fmt::Result {
        f.write_str(&self.0)
    }
}
impl std::error::Error for Error {}
impl ser::Error for Error {
    fn custom<T: fmt::Display>(msg: T) -> Self {
        Error(msg.to_string())
    }
}
impl de::Error for Error {
    fn custom<T: fmt::Display>(msg: T) -> Self {
        Error(msg.to_string())
    }
}

fn write_all<W: Write>(w: &mut W, mut buf: &[u8]) -> Result<(), Error> {
    while !buf.is_empty() {
        match w.write(buf) {
            Ok(0) => return Err(Error("writer accepted 0 bytes".into())),
            Ok(n) => buf = &buf[n..],
            Err(e) if e.kind() == std::io::ErrorKind::Interrupted => {}
            Err(e) => return Err(Error(e.to_string())),
        }
    }
    Ok(())
}

fn read_exact<R: Read>(r: &mut R, mut buf: &mut [u8]) -> Result<(), Error> {
    while !buf.is_empty() {
        match r.read(buf) {
            Ok(0) => return Err(Error("unexpected end of input".into())),
            Ok(n) => buf = &mut buf[n..],
            Err(e) if e.kind() == std::io::ErrorKind::Interrupted => {}
            Err(e) => return Err(Error(e.to_string())),
        }
    }
    Ok(())
}

pub fn to_writer<W: Write, T: Serialize>(w: W, v: &T) -> Result<(), Error> {
    to_writer_opt(w, v, false)
}

/// `names`: struct names are written and checked on the way back (as RON with `struct_names`, or XML-like
/// formats, do), so a `Serialize`/`Deserialize` pair that disagrees on the type's name fails.
pub fn to_writer_opt<W: Write, T: Serialize>(w: W, v: &T, names: bool) -> Result<(), Error> {
    let mut s = Ser { w, names, text: false };
    v.serialize(&mut s)
}

/// The HUMAN-READABLE variant: `is_human_readable()` is true and every number travels as text (as in
/// query-string, INI, XML or CSV style formats); `deserialize_any` on a scalar hands the visitor a string.
pub fn to_writer_text<W: Write, T: Serialize>(w: W, v: &T) -> Result<(), Error> {
    let mut s = Ser { w, names: false, text: true };
    v.serialize(&mut s)
}

pub fn to_vec_text<T: Serialize>(v: &T) -> Result<Vec<u8>, Error> {
    let mut out = Vec::new();
    to_writer_text(&mut out, v)?;
    Ok(out)
}

pub fn from_reader_text<R: Read, T: de::DeserializeOwned>(r: R) -> Result<T, Error> {
    let mut d = De { r, names: false, text: true };
    let v = T::deserialize(&mut d)?;
    let mut probe = [0u8; 1];
    loop {
        match d.r.read(&mut probe) {
            Ok(0) => return Ok(v),
            Ok(_) => return Err(Error("trailing bytes".into())),
            Err(e) if e.kind() == std::io::ErrorKind::Interrupted => {}
            Err(e) => return Err(Error(e.to_string())),
        }
    }
}

pub fn to_vec_opt<T: Serialize>(v: &T, names: bool) -> Result<Vec<u8>, Error> {
    let mut out = Vec::new();
    to_writer_opt(&mut out, v, names)?;
    Ok(out)
}

pub fn to_vec<T: Serialize>(v: &T) -> Result<Vec<u8>, Error> {
    let mut out = Vec::new();
    to_writer(&mut out, v)?;
    Ok(out)
}

pub fn from_reader<R: Read, T: de::DeserializeOwned>(r: R) -> Result<T, Error> {
    from_reader_opt(r, false)
}

pub fn from_reader_opt<R: Read, T: de::DeserializeOwned>(r: R, names: bool) -> Result<T, Error> {
    let mut d = De { r, names, text: false };
    let v = T::deserialize(&mut d)?;
    // the whole input must have been consumed
    let mut probe = [0u8; 1];
    loop {
        match d.r.read(&mut probe) {
            Ok(0) => return Ok(v),
            Ok(_) => return Err(Error("trailing bytes".into())),
            Err(e) if e.kind() == std::io::ErrorKind::Interrupted => {}
            Err(e) => return Err(Error(e.to_string())),
        }
    }
}

pub fn from_slice<T: de::DeserializeOwned>(b: &[u8]) -> Result<T, Error> {
    from_reader(b)
}

/// `Deserialize::deserialize_in_place` into an existing value.
pub fn from_slice_in_place<T: de::DeserializeOwned>(b: &[u8], place: &mut T) -> Result<(), Error> {
    let mut d = De { r: b, names: false, text: false };
    de::Deserialize::deserialize_in_place(&mut d, place)
}

// ---------------------------------------------------------------------------------------------------

pub struct Ser<W: Write> {
    w: W,
    names: bool,
    text: bool,
}

impl<W: Write> Ser<W> {
    fn name(&mut self, n: &'static str) -> Result<(), Error> {
        if self.names {
            write_all(&mut self.w, &(n.len() as u64).to_le_bytes())?;
            write_all(&mut self.w, n.as_bytes())?;
        }
        Ok(())
    }
}

macro_rules! unsupported_ser {
    ($($name:ident($t:ty)),*) => { $(
        fn $name(self, _v: $t) -> Result<(), Error> { Err(Error(concat!("positional format: ", stringify!($name), " not supported").into())) }
    )* };
}

impl<'a, W: Write> ser::Serializer for &'a mut Ser<W> {
    type Ok = ();
    type Error = Error;
    type SerializeSeq = Self;
    type SerializeTuple = Self;
    type SerializeTupleStruct = Self;
    type SerializeTupleVariant = ser::Impossible<(), Error>;
    type SerializeMap = ser::Impossible<(), Error>;
    type SerializeStruct = Self;
    type SerializeStructVariant = ser::Impossible<(), Error>;

    fn serialize_f64(self, v: f64) -> Result<(), Error> {
        if self.text {
            // Rust's shortest round-trip rendering ("inf", "-inf", "-0.0", "5e-324", ...)
            let t = format!("{v:?}");
            write_all(&mut self.w, &(t.len() as u64).to_le_bytes())?;
            return write_all(&mut self.w, t.as_bytes());
        }
        write_all(&mut self.w, &v.to_bits().to_le_bytes())
    }
    fn serialize_u64(self, v: u64) -> Result<(), Error> {
        write_all(&mut self.w, &v.to_le_bytes())
    }
    fn serialize_i64(self, v: i64) -> Result<(), Error> {
        write_all(&mut self.w, &v.to_le_bytes())
    }
    fn serialize_f32(self, v: f32) -> Result<(), Error> {
        // a serializer is free to call this; the positional format keeps 4 bytes, tagged by position only
        write_all(&mut self.w, &v.to_bits().to_le_bytes())
    }
    unsupported_ser!(serialize_bool(bool), serialize_i8(i8), serialize_i16(i16), serialize_i32(i32), serialize_u8(u8), serialize_u16(u16), serialize_u32(u32), serialize_char(char), serialize_str(&str), serialize_bytes(&[u8]));
    fn serialize_none(self) -> Result<(), Error> {
        write_all(&mut self.w, &[0])
    }
    fn serialize_some<T: ?Sized + Serialize>(self, v: &T) -> Result<(), Error> {
        write_all(&mut self.w, &[1])?;
        v.serialize(self)
    }
    fn serialize_unit(self) -> Result<(), Error> {
        Ok(())
    }
    fn serialize_unit_struct(self, _n: &'static str) -> Result<(), Error> {
        Ok(())
    }
    fn serialize_unit_variant(self, _n: &'static str, _i: u32, _v: &'static str) -> Result<(), Error> {
        Err(Error("positional format: enums not supported".into()))
    }
    fn serialize_newtype_struct<T: ?Sized + Serialize>(self, n: &'static str, v: &T) -> Result<(), Error> {
        self.name(n)?;
        v.serialize(self)
    }
    fn serialize_newtype_variant<T: ?Sized + Serialize>(self, _n: &'static str, _i: u32, _v: &'static str, _x: &T) -> Result<(), Error> {
        Err(Error("positional format: enums not supported".into()))
    }
    fn serialize_seq(self, len: Option<usize>) -> Result<Self, Error> {
        let len = len.ok_or_else(|| Error("positional format: sequences need a known length".into()))?;
        write_all(&mut self.w, &(len as u64).to_le_bytes())?;
        Ok(self)
    }
    fn serialize_tuple(self, _len: usize) -> Result<Self, Error> {
        Ok(self)
    }
    fn serialize_tuple_struct(self, _n: &'static str, _len: usize) -> Result<Self, Error> {
        Ok(self)
    }
    fn serialize_tuple_variant(self, _n: &'static str, _i: u32, _v: &'static str, _l: usize) -> Result<Self::SerializeTupleVariant, Error> {
        Err(Error("positional format: enums not supported".into()))
    }
    fn serialize_map(self, _len: Option<usize>) -> Result<Self::SerializeMap, Error> {
        Err(Error("positional format: maps not supported".into()))
    }
    fn serialize_struct(self, n: &'static str, _len: usize) -> Result<Self, Error> {
        self.name(n)?;
        Ok(self)
    }
    fn serialize_struct_variant(self, _n: &'static str, _i: u32, _v: &'static str, _l: usize) -> Result<Self::SerializeStructVariant, Error> {
        Err(Error("positional format: enums not supported".into()))
    }
    fn is_human_readable(&self) -> bool {
        self.text
    }
}

impl<'a, W: Write> ser::SerializeSeq for &'a mut Ser<W> {
    type Ok = ();
    type Error = Error;
    fn serialize_element<T: ?Sized + Serialize>(&mut self, v: &T) -> Result<(), Error> {
        v.serialize(&mut **self)
    }
    fn end(self) -> Result<(), Error> {
        Ok(())
    }
}
impl<'a, W: Write> ser::SerializeTuple for &'a mut Ser<W> {
    type Ok = ();
    type Error = Error;
    fn serialize_element<T: ?Sized + Serialize>(&mut self, v: &T) -> Result<(), Error> {
        v.serialize(&mut **self)
    }
    fn end(self) -> Result<(), Error> {
        Ok(())
    }
}
impl<'a, W: Write> ser::SerializeTupleStruct for &'a mut Ser<W> {
    type Ok = ();
    type Error = Error;
    fn serialize_field<T: ?Sized + Serialize>(&mut self, v: &T) -> Result<(), Error> {
        v.serialize(&mut **self)
    }
    fn end(self) -> Result<(), Error> {
        Ok(())
    }
}
impl<'a, W: Write> ser::SerializeStruct for &'a mut Ser<W> {
    type Ok = ();
    type Error = Error;
    fn serialize_field<T: ?Sized + Serialize>(&mut self, _k: &'static str, v: &T) -> Result<(), Error> {
        v.serialize(&mut **self)
    }
    fn end(self) -> Result<(), Error> {
        Ok(())
    }
}

// ---------------------------------------------------------------------------------------------------

pub struct De<R: Read> {
    r: R,
    names: bool,
    text: bool,
}

impl<R: Read> De<R> {
    fn name(&mut self, want: &'static str) -> Result<(), Error> {
        if self.names {
            let len = self.u64()?;
            if len > 256 {
                return Err(Error("absurd struct-name length".into()));
            }
            let mut b = vec![0u8; len as usize];
            read_exact(&mut self.r, &mut b)?;
            if b != want.as_bytes() {
                return Err(Error(format!("struct name on the wire is `{}`, the Deserialize impl asks for `{want}`", String::from_utf8_lossy(&b))));
            }
        }
        Ok(())
    }
    fn token(&mut self) -> Result<String, Error> {
        let len = self.u64()?;
        if len > 64 {
            return Err(Error("absurd number-token length".into()));
        }
        let mut b = vec![0u8; len as usize];
        read_exact(&mut self.r, &mut b)?;
        String::from_utf8(b).map_err(|e| Error(e.to_string()))
    }
    fn u64(&mut self) -> Result<u64, Error> {
        let mut b = [0u8; 8];
        read_exact(&mut self.r, &mut b)?;
        Ok(u64::from_le_bytes(b))
    }
}

struct Counted<'a, R: Read> {
    de: &'a mut De<R>,
    left: usize,
}

impl<'de, 'a, R: Read> SeqAccess<'de> for Counted<'a, R> {
    type Error = Error;
    fn next_element_seed<T: DeserializeSeed<'de>>(&mut self, seed: T) -> Result<Option<T::Value>, Error> {
        if self.left == 0 {
            return Ok(None);
        }
        self.left -= 1;
        seed.deserialize(&mut *self.de).map(Some)
    }
    fn size_hint(&self) -> Option<usize> {
        Some(self.left)
    }
}

macro_rules! unsupported_de {
    ($($name:ident),*) => { $(
        fn $name<V: Visitor<'de>>(self, _v: V) -> Result<V::Value, Error> { Err(Error(concat!("positional format: ", stringify!($name), " not supported").into())) }
    )* };
}

impl<'de, 'a, R: Read> de::Deserializer<'de> for &'a mut De<R> {
    type Error = Error;
    fn deserialize_any<V: Visitor<'de>>(self, v: V) -> Result<V::Value, Error> {
        if self.text {
            // a text format does not know the type of a scalar: the visitor gets the string
            let t = self.token()?;
            return v.visit_str(&t);
        }
        Err(Error("positional format: deserialize_any not supported".into()))
    }
    unsupported_de!(deserialize_bool, deserialize_i8, deserialize_i16, deserialize_i32, deserialize_u8, deserialize_u16, deserialize_u32, deserialize_char, deserialize_str, deserialize_string, deserialize_bytes, deserialize_byte_buf, deserialize_map, deserialize_identifier, deserialize_ignored_any);

    fn deserialize_f64<V: Visitor<'de>>(self, v: V) -> Result<V::Value, Error> {
        if self.text {
            let t = self.token()?;
            let x: f64 = t.parse().map_err(|_| Error(format!("not a number: {t}")))?;
            return v.visit_f64(x);
        }
        let b = self.u64()?;
        v.visit_f64(f64::from_bits(b))
    }
    fn deserialize_f32<V: Visitor<'de>>(self, v: V) -> Result<V::Value, Error> {
        let mut b = [0u8; 4];
        read_exact(&mut self.r, &mut b)?;
        v.visit_f32(f32::from_bits(u32::from_le_bytes(b)))
    }
    fn deserialize_u64<V: Visitor<'de>>(self, v: V) -> Result<V::Value, Error> {
        let b = self.u64()?;
        v.visit_u64(b)
    }
    fn deserialize_i64<V: Visitor<'de>>(self, v: V) -> Result<V::Value, Error> {
        let b = self.u64()?;
        v.visit_i64(b as i64)
    }
    fn deserialize_option<V: Visitor<'de>>(self, v: V) -> Result<V::Value, Error> {
        let mut b = [0u8; 1];
        read_exact(&mut self.r, &mut b)?;
        match b[0] {
            0 => v.visit_none(),
            1 => v.visit_some(self),
            t => Err(Error(format!("bad option tag {t}"))),
        }
    }
    fn deserialize_unit<V: Visitor<'de>>(self, v: V) -> Result<V::Value, Error> {
        v.visit_unit()
    }
    fn deserialize_unit_struct<V: Visitor<'de>>(self, _n: &'static str, v: V) -> Result<V::Value, Error> {
        v.visit_unit()
    }
    fn deserialize_newtype_struct<V: Visitor<'de>>(self, n: &'static str, v: V) -> Result<V::Value, Error> {
        self.name(n)?;
        v.visit_newtype_struct(self)
    }
    fn deserialize_seq<V: Visitor<'de>>(self, v: V) -> Result<V::Value, Error> {
        let len = self.u64()?;
        if len > (1 << 32) {
            return Err(Error("absurd sequence length".into()));
        }
        v.visit_seq(Counted { de: self, left: len as usize })
    }
    fn deserialize_tuple<V: Visitor<'de>>(self, len: usize, v: V) -> Result<V::Value, Error> {
        v.visit_seq(Counted { de: self, left: len })
    }
    fn deserialize_tuple_struct<V: Visitor<'de>>(self, _n: &'static str, len: usize, v: V) -> Result<V::Value, Error> {
        v.visit_seq(Counted { de: self, left: len })
    }
    fn deserialize_struct<V: Visitor<'de>>(self, n: &'static str, fields: &'static [&'static str], v: V) -> Result<V::Value, Error> {
        self.name(n)?;
        v.visit_seq(Counted { de: self, left: fields.len() })
    }
    fn deserialize_enum<V: Visitor<'de>>(self, _n: &'static str, _vs: &'static [&'static str], _v: V) -> Result<V::Value, Error> {
        Err(Error("positional format: enums not supported".into()))
    }
    fn is_human_readable(&self) -> bool {
        self.text
    }
}

#[cfg(test)]
mod tests {
    use super::*;
    use piecewise_polynomial::*;
    #[test]
    fn roundtrip_basic() {
        let f = Piecewise {
            segments: vec![
                Segment { end: 1.0, poly: IntOfLog { k: -0.0, poly: Poly2([1.0, 2.0, 3.0]) } },
                Segment { end: 2.0, poly: IntOfLog { k: 5e-324, poly: Poly2([4.0, 5.0, 6.0]) } },
            ],
        };
        let b = to_vec(&f).unwrap();
        assert_eq!(b.len(), 8 + 2 * (8 + 8 + 24));
        let g: Piecewise<IntOfLog<Poly2>> = from_slice(&b).unwrap();
        assert_eq!(f, g);
        let v = (Some(f.clone()), vec![f.clone()]);
        let b = to_vec(&v).unwrap();
        let w: (Option<Piecewise<IntOfLog<Poly2>>>, Vec<Piecewise<IntOfLog<Poly2>>>) = from_slice(&b).unwrap();
        assert_eq!(v, w);
    }
}

//! The only source of randomness in the simulator.
//!
//! One `u64` (VERIF_SEED mixed with the property id and the run index) seeds one
//! xoshiro256** generator per run; every choice of that run is drawn from it in
//! program order. Logging, hashing and coverage bookkeeping never touch it.

#[inline]
pub fn splitmix64(state: &mut u64) -> u64 {
    *state = state.wrapping_add(0x9E37_79B9_7F4A_7C15);
    let mut z = *state;
    z = (z ^ (z >> 30)).wrapping_mul(0xBF58_476D_1CE4_E5B9);
    z = (z ^ (z >> 27)).wrapping_mul(0x94D0_49BB_1331_11EB);
    z ^ (z >> 31)
}

pub fn fnv1a(bytes: &[u8]) -> u64 {
    let mut h: u64 = 0xcbf2_9ce4_8422_2325;
    for &b in bytes {
        h ^= b as u64;
        h = h.wrapping_mul(0x0000_0100_0000_01B3);
    }
    h
}

/// Seed of run `i` of property `prop` under base seed `base`.
pub fn run_seed(base: u64, prop: &str, i: u64) -> u64 {
    let mut s = base ^ fnv1a(prop.as_bytes()) ^ i.wrapping_mul(0x9E37_79B9_7F4A_7C15);
    splitmix64(&mut s)
}

#[derive(Clone, Debug)]
pub struct Rng {
    s: [u64; 4],
}

impl Rng {
    pub fn new(seed: u64) -> Rng {
        let mut sm = seed;
        let s = [
            splitmix64(&mut sm),
            splitmix64(&mut sm),
            splitmix64(&mut sm),
            splitmix64(&mut sm),
        ];
        Rng { s }
    }

    #[inline]
    pub fn next_u64(&mut self) -> u64 {
        let result = self.s[1].wrapping_mul(5).rotate_left(7).wrapping_mul(9);
        let t = self.s[1] << 17;
        self.s[2] ^= self.s[0];
        self.s[3] ^= self.s[1];
        self.s[1] ^= self.s[2];
        self.s[0] ^= self.s[3];
        self.s[2] ^= t;
        self.s[3] = self.s[3].rotate_left(45);
        result
    }

    /// Uniform in `0..n` (n > 0). Multiply-shift; the tiny bias is irrelevant here
    /// and keeps the stream consumption at exactly one draw per call.
    #[inline]
    pub fn below(&mut self, n: u64) -> u64 {
        debug_assert!(n > 0);
        (((self.next_u64() as u128) * (n as u128)) >> 64) as u64
    }

    #[inline]
    pub fn range(&mut self, lo: i64, hi_incl: i64) -> i64 {
        lo + self.below((hi_incl - lo + 1) as u64) as i64
    }

    #[inline]
    pub fn usize_in(&mut self, lo: usize, hi_incl: usize) -> usize {
        lo + self.below((hi_incl - lo + 1) as u64) as usize
    }

    /// True with probability `num/den`.
    #[inline]
    pub fn chance(&mut self, num: u64, den: u64) -> bool {
        self.below(den) < num
    }

    /// Uniform in [0,1).
    #[inline]
    pub fn unit(&mut self) -> f64 {
        (self.next_u64() >> 11) as f64 * (1.0 / (1u64 << 53) as f64)
    }

    /// Uniform in [lo,hi).
    #[inline]
    pub fn uniform(&mut self, lo: f64, hi: f64) -> f64 {
        lo + (hi - lo) * self.unit()
    }

    /// Pick an index according to integer weights (sum > 0).
    pub fn weighted(&mut self, weights: &[u32]) -> usize {
        let total: u64 = weights.iter().map(|&w| w as u64).sum();
        debug_assert!(total > 0);
        let mut r = self.below(total);
        for (i, &w) in weights.iter().enumerate() {
            if r < w as u64 {
                return i;
            }
            r -= w as u64;
        }
        weights.len() - 1
    }

    pub fn pick<'a, T>(&mut self, xs: &'a [T]) -> &'a T {
        &xs[self.below(xs.len() as u64) as usize]
    }
}

/// Running FNV-1a over u64 words: the digest of a run's event log.
#[derive(Clone, Copy, Debug)]
pub struct Digest(pub u64);

impl Digest {
    pub fn new() -> Digest {
        Digest(0xcbf2_9ce4_8422_2325)
    }
    #[inline]
    pub fn word(&mut self, w: u64) {
        let mut h = self.0;
        for i in 0..8 {
            h ^= (w >> (8 * i)) & 0xff;
            h = h.wrapping_mul(0x0000_0100_0000_01B3);
        }
        self.0 = h;
    }
    #[inline]
    pub fn f(&mut self, x: f64) {
        // NaN payloads are unspecified by Rust: canonicalise so digests are stable.
        self.word(if x.is_nan() { 0x7ff8_0000_0000_0000 } else { x.to_bits() });
    }
}

impl Default for Digest {
    fn default() -> Self {
        Digest::new()
    }
}

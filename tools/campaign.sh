#!/bin/bash
# usage: tools/campaign.sh [name-prefix]   — run every /verif/mutants/*.patch (DESIGN §7) through the
# repository's own test suite and the quick check of its target property; equivalents run C03 C12 C16.
ROOT="$(cd "$(dirname "${BASH_SOURCE[0]}")/.." && pwd)"
while IFS=$'\t' read -r name prop; do
  [ -n "$name" ] || continue
  case "$name" in ${1:-}*) ;; *) continue;; esac
  if [ "$prop" = equiv ]; then props="C03 C12 C16"; else props="$prop"; fi
  "$ROOT/tools/run_mutant.sh" "$ROOT/mutants/$name.patch" --tests $props
done < "$ROOT/mutants/INDEX.tsv"

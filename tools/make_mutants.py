#!/usr/bin/env python3
"""Regenerate /verif/mutants/*.patch (the deliberate breaks of DESIGN §7) from textual edits.
Run with a clean scratch worktree of /repo as argument: tools/make_mutants.py /tmp/wt/mine"""
import subprocess, sys, os
wt = sys.argv[1]
out = os.path.join(os.path.dirname(os.path.abspath(__file__)), '..', 'mutants')
P='src/piecewise.rs'; L='src/log_poly.rs'; Y='src/poly.rs'
NAN_GUARD = """        if x.is_nan() {
            return self.last.evaluate(x);
        }
"""
M = [
 # name, expected property (or 'equiv'), [(file, old, new)]
 ("c03-fwd-ge", "C03", [(P, "if first.end > x {", "if first.end >= x {")]),
 ("c03-back-lt", "C03", [(P, "if seg.end <= x {", "if seg.end < x {")]),
 ("c03-ix", "C03", [(P, ".split_at_checked(ix + 1)", ".split_at_checked(ix)")]),
 ("c03-unwrap-tail", "C03", [(P, ".unwrap_or(self.all_segments_front);", ".unwrap_or(self.tail);")]),
 ("c03-no-last-update", "C03", [(P, "        self.last_evaluation = x;\n", "")]),
 ("c03-init-last-end", "C03", [(P, "last_evaluation: front.first().map(|s| s.end).unwrap_or(last.end),", "last_evaluation: last.end,")]),
 ("c03-no-rev", "C03", [(P, "                .enumerate()\n                .rev()\n", "                .enumerate()\n")]),
 ("c02-direct-ge", "C03", [(P, "match self.segments.iter().position(|seg| seg.end > x) {", "match self.segments.iter().position(|seg| seg.end >= x) {")]),
 ("c03-gt", "C03", [(P, "let seg = if x >= self.last_evaluation {", "let seg = if x > self.last_evaluation {")]),
 ("equiv-whole-front", "equiv", [(P, """            let in_front = &self.all_segments_front[..self
                .all_segments_front
                .len()
                .saturating_sub(self.tail.len())];""", "            let in_front = self.all_segments_front;")]),
 ("equiv-init-neg-inf", "equiv", [(P, "last_evaluation: front.first().map(|s| s.end).unwrap_or(last.end),", "last_evaluation: f64::NEG_INFINITY,")]),
 ("c12-le", "C12", [(P, ".position(|seg| x < seg.end)", ".position(|seg| x <= seg.end)")]),
 ("c12-no-offset", "C12", [(P, ".map_or(self.segments.len() - 1, |i| i + prev_seg);", ".map_or(self.segments.len() - 1, |i| i);")]),
 ("c12-fallback-prev", "C12", [(P, ".map_or(self.segments.len() - 1, |i| i + prev_seg);", ".map_or(prev_seg, |i| i + prev_seg);")]),
 ("c12-eager", "C12", [(P, "        xs.into_iter().map(move |x| {\n            prev_seg", "        xs.into_iter().collect::<Vec<_>>().into_iter().map(move |x| {\n            prev_seg")]),
 ("c16-no-guard", "C16", [(P, NAN_GUARD, "")]),
 ("c16-guard-after", "C16", [(P, NAN_GUARD, ""), (P, "        self.last_evaluation = x;\n", "        if !x.is_nan() {\n            self.last_evaluation = x;\n        }\n")]),
 ("c11-knot-x", "C11", [(P, """        let mut knot = knot0;
        segments.into_iter().map(move |seg| {
            let int = seg.integral(knot);
            knot = Knot {
                x: int.end,""", """        let mut knot = knot0;
        segments.into_iter().map(move |seg| {
            let int = seg.integral(knot);
            knot = Knot {
                x: knot.x,""")]),
 ("c11-knot-y", "C11", [(P, "                y: int.evaluate(int.end),\n            };\n            int\n        })\n    }\n\n    #[inline]\n    /// See", "                y: int.evaluate(knot.x),\n            };\n            int\n        })\n    }\n\n    #[inline]\n    /// See")]),
 ("c11-byvalue-stale", "C11", [(P, """        I: IntoIterator<Item = Segment<T>>,
    {
        let mut knot = knot0;
        segments.into_iter().map(move |seg| {
            let int = seg.integral(knot);
            knot = Knot {
                x: int.end,
                y: int.evaluate(int.end),
            };""", """        I: IntoIterator<Item = Segment<T>>,
    {
        let mut knot = knot0;
        segments.into_iter().map(move |seg| {
            let int = seg.integral(knot);
            knot = Knot {
                x: int.end,
                y: int.evaluate(seg.end) + 0.0 * knot.y + if knot.x == knot0.x { 0.0 } else { f64::EPSILON * int.evaluate(seg.end) },
            };""")]),
 ("c11-indef-thread0", "C11", [(P, "                &self.segments[1..],", "                &self.segments[0..],")]),
 ("c11-seg-no-translate", "C11", [(P, "        let mut indef = self.indefinite();\n        indef.translate(knot.y - indef.evaluate(knot.x));\n        indef\n    }\n}\n\nimpl<T> AbsDiffEq for Segment<T>", "        let indef = self.indefinite();\n        let _ = knot;\n        indef\n    }\n}\n\nimpl<T> AbsDiffEq for Segment<T>")]),
 ("c11-poly3-lane", "C11", [(Y, "            self.0[2] / 3.0,\n            self.0[3] / 4.0,\n        ];\n        Poly4(dst)", "            self.0[2] / 4.0,\n            self.0[3] / 4.0,\n        ];\n        Poly4(dst)")]),
 ("c11-log6-rec", "C11", [(L, "        let g = (self.0).0[6];\n        let f = (self.0).0[5] - 6.0 * g;\n        let e = (self.0).0[4] - 5.0 * f;\n        let d = (self.0).0[3] - 4.0 * e;\n        let c = (self.0).0[2] - 3.0 * d;\n        let b = (self.0).0[1] - 2.0 * c;\n        let a = (self.0).0[0] - b;\n        IntOfLog {\n            k: 0.0,\n            poly: Poly6(", "        let g = (self.0).0[6];\n        let f = (self.0).0[5] - 6.0 * g;\n        let e = (self.0).0[4] - 4.0 * f;\n        let d = (self.0).0[3] - 4.0 * e;\n        let c = (self.0).0[2] - 3.0 * d;\n        let b = (self.0).0[1] - 2.0 * c;\n        let a = (self.0).0[0] - b;\n        IntOfLog {\n            k: 0.0,\n            poly: Poly6(")]),
 ("c11-no-v", "C11", [(L, "self.k + v * self.poly.evaluate(v.ln())", "self.k + self.poly.evaluate(v.ln())")]),
 ("c18-skip-u", "C18", [(L, "    pub coeffs: [f64; 4],\n    pub u: f64,", "    pub coeffs: [f64; 4],\n    #[serde(skip)]\n    pub u: f64,")]),
 ("c18-rename-u", "C18", [(L, "    pub coeffs: [f64; 4],\n    pub u: f64,", "    pub coeffs: [f64; 4],\n    #[serde(rename = \"k\")]\n    pub u: f64,")]),
 ("c18-skipser-end", "C18", [(P, "pub struct Segment<T> {\n    pub end: f64,", "pub struct Segment<T> {\n    #[serde(skip_serializing, default)]\n    pub end: f64,")]),
 ("c18-borsh-skip-k", "C18", [(L, "pub struct IntOfLog<T> {\n    pub k: f64,", "pub struct IntOfLog<T> {\n    #[cfg_attr(feature = \"borsh\", borsh(skip))]\n    pub k: f64,")]),
 ("c19-no-sort", "C19", [(P, "        ends.sort_by(|x, y| x.partial_cmp(y).unwrap());\n", "")]),
 ("c19-is-finite", "C19", [(P, "!ends.iter().all(|x| x.is_normal())", "!ends.iter().all(|x| x.is_finite())")]),
 ("c19-no-empty-test", "C19", [(P, "if ends.is_empty() || !ends.iter().all(|x| x.is_normal()) {", "if !ends.iter().all(|x| x.is_normal()) {")]),
 ("c19-reverse-cmp", "C19", [(P, "ends.sort_by(|x, y| x.partial_cmp(y).unwrap());", "ends.sort_by(|x, y| y.partial_cmp(x).unwrap());")]),
 # supervision self-tests: a hang and an abort that only rare inputs trigger
 ("infra-hang", "C03", [(P, "                self.tail = tail;\n", "                if first.end == x && tail.len() > 5 {\n                    continue;\n                }\n                self.tail = tail;\n")]),
 ("infra-abort", "C16", [(P, "        assert!(!self.segments.is_empty(), \"no segments to pick from\");\n        match self.segments.iter().position(|seg| seg.end > x) {", "        assert!(!self.segments.is_empty(), \"no segments to pick from\");\n        if x == f64::NEG_INFINITY && self.segments.len() > 6 {\n            return self.evaluate(x) + 0.0;\n        }\n        match self.segments.iter().position(|seg| seg.end > x) {")]),
 # library-global state: the answer depends on what an earlier call (possibly of an earlier run) did
 ("infra-threadlocal", "C03", [(P, """impl<T: Evaluate> Evaluate for Piecewise<T> {
    #[inline]
    fn evaluate(&self, x: f64) -> f64 {
        assert!(!self.segments.is_empty(), "no segments to pick from");
        match self.segments.iter().position(|seg| seg.end > x) {
            // No segment, use last
            None => self.segments.last().unwrap().evaluate(x),
            Some(seg_ix) => self.segments[seg_ix].evaluate(x),
        }
    }
}""", """thread_local! {
    // memo of the last lookup: (argument bits, number of segments, index found)
    static LAST_LOOKUP: std::cell::Cell<(u64, usize, usize)> = const { std::cell::Cell::new((0, 0, 0)) };
}

impl<T: Evaluate> Evaluate for Piecewise<T> {
    #[inline]
    fn evaluate(&self, x: f64) -> f64 {
        assert!(!self.segments.is_empty(), "no segments to pick from");
        let (bx, bn, bi) = LAST_LOOKUP.with(|c| c.get());
        if bx == x.to_bits() && bn == self.segments.len() && bn > 6 {
            return self.segments[bi].evaluate(x);
        }
        match self.segments.iter().position(|seg| seg.end > x) {
            // No segment, use last
            None => self.segments.last().unwrap().evaluate(x),
            Some(seg_ix) => {
                LAST_LOOKUP.with(|c| c.set((x.to_bits(), self.segments.len(), seg_ix)));
                self.segments[seg_ix].evaluate(x)
            }
        }
    }
}""")]),
 ("c19-any", "C19", [(P, "!ends.iter().all(|x| x.is_normal())", "!ends.iter().any(|x| x.is_normal())")]),
]
os.makedirs(out, exist_ok=True)
index = []
for name, prop, edits in M:
    subprocess.check_call(['git','-C',wt,'checkout','-q','--','.'])
    for f, old, new in edits:
        p = os.path.join(wt, f); s = open(p).read()
        assert s.count(old) >= 1, (name, f, 'pattern not found')
        s = s.replace(old, new, 1); open(p,'w').write(s)
    d = subprocess.check_output(['git','-C',wt,'diff','--','src'])
    assert d, name
    open(os.path.join(out, name + '.patch'),'wb').write(d)
    index.append(f"{name}\t{prop}")
subprocess.check_call(['git','-C',wt,'checkout','-q','--','.'])
open(os.path.join(out,'INDEX.tsv'),'w').write("\n".join(index)+"\n")
print(len(M), 'patches written')

#!/bin/bash
# usage: tools/process_candidate.sh <worktree> <candidate-dir> <seeded-id> <PROP> [cargo args for the demo...]
# Round-6 helper: confirm a sub-agent's candidate change (tools/verify_seeded.sh), and if it is confirmed
# (demo passes clean, suite passes patched, demo fails patched) copy it to seeded/<seeded-id>/ and run the
# quick check of <PROP> against it (tools/run_mutant.sh). Prints the two result lines.
WT="$1"; CAND="$2"; ID="$3"; PROP="$4"; shift 4
ROOT="$(cd "$(dirname "${BASH_SOURCE[0]}")/.." && pwd)"
v="$("$ROOT/tools/verify_seeded.sh" "$WT" "$CAND" "" "$@" 2>&1 | tail -1)"
echo "$v"
case "$v" in
  *"demo_on_clean=pass suite_with_patch=pass"*"demo_with_patch=fails-as-required"*) ;;
  *) echo "$ID: NOT CONFIRMED, not kept"; exit 1;;
esac
mkdir -p "$ROOT/seeded/$ID"
cp "$CAND/patch.diff" "$CAND/demo.rs" "$ROOT/seeded/$ID/"
cp "$CAND/meta.json" "$ROOT/seeded/$ID/agent-meta.json"
echo "$v" > "$ROOT/seeded/$ID/confirmed.txt"
"$ROOT/tools/run_mutant.sh" "$ROOT/seeded/$ID/patch.diff" "$PROP" 2>&1 | tee "$ROOT/seeded/$ID/check-result.txt"

#!/bin/bash
# usage: tools/run_mutant.sh <patch.diff> [--tests] <PROP> [<PROP>...]
# Applies a deliberate break to /repo's working tree, runs the quick checks of the given properties
# with evidence/replays redirected to a scratch directory, and restores /repo. Never commits.
# Prints one line per property: "<patch> <PROP> DETECTED|missed (exit=<n>) [first line of the violation]".
set -u
ROOT="$(cd "$(dirname "${BASH_SOURCE[0]}")/.." && pwd)"
PATCH="$(realpath "$1")"; shift
RUNTESTS=0; if [ "${1:-}" = --tests ]; then RUNTESTS=1; shift; fi
if [ -n "$(git -C /repo status --porcelain --untracked-files=no)" ]; then echo "refusing: /repo has uncommitted changes" >&2; exit 2; fi
SCRATCH="$(mktemp -d /tmp/mutant.XXXXXX)"
restore() { git -C /repo checkout -- . ; rm -rf "$SCRATCH"; }
trap restore EXIT
if ! git -C /repo apply "$PATCH"; then echo "$PATCH does not apply" >&2; exit 2; fi
if [ $RUNTESTS = 1 ]; then
  if (cd /repo && CARGO_NET_OFFLINE=true cargo test --workspace --no-fail-fast --offline >"$SCRATCH/tests.log" 2>&1); then
    echo "$PATCH suite: $(grep -m1 'test result' "$SCRATCH/tests.log")"
  else
    echo "$PATCH suite: FAILS ($(grep -m1 -E 'test result|error' "$SCRATCH/tests.log"))"
  fi
fi
export VERIF_EVIDENCE_DIR="$SCRATCH/evidence" VERIF_REPLAY_DIR="$SCRATCH/replays"
for P in "$@"; do
  out="$("$ROOT/check" "$P" "${MUTANT_TIER:-quick}" 2>&1)"; rc=$?
  if [ $rc = 1 ]; then
    rp="$(echo "$out" | sed -n 's/^VIOLATION property=[^ ]* replay=//p' | head -1)"
    rr=""; if [ -n "$rp" ] && [ -f "$rp" ]; then "$ROOT/check" replay "$rp" >/dev/null 2>&1; [ $? = 1 ] && rr=" replay-reproduces" || rr=" REPLAY-DOES-NOT-REPRODUCE"; fi
    echo "$(basename "$(dirname "$PATCH")")/$(basename "$PATCH") $P DETECTED$rr | $(echo "$out" | grep -A2 '^VIOLATION' | sed -n '2,3p' | tr '\n' ' ' | cut -c1-300)"
  else
    echo "$(basename "$(dirname "$PATCH")")/$(basename "$PATCH") $P missed (exit=$rc) $(echo "$out" | grep -i 'harness error' | head -1)"
  fi
done

#!/bin/bash
# usage: tools/verify_seeded.sh <worktree> <outdir>/m<i> [cargo-toml-override] [extra cargo args...]
# Confirms a candidate seeded change independently: demo passes on the clean worktree, the patch applies,
# the repository's suite still passes with it, and the demo fails with it. Leaves the worktree clean.
WT="$1"; M="$2"; TOML="${3:-}"; shift 3 2>/dev/null || shift $#
export CARGO_NET_OFFLINE=true
cd "$WT" || exit 2
git checkout -q -- . ; rm -rf tests
mkdir -p tests; cp "$M/demo.rs" tests/demo.rs
[ -n "$TOML" ] && [ -f "$TOML" ] && cp "$TOML" Cargo.toml
cargo test --offline --test demo "$@" >/tmp/vs_$$_clean.log 2>&1; c=$?
git apply "$M/patch.diff" || { echo "$M: PATCH DOES NOT APPLY"; git checkout -q -- .; rm -rf tests; exit 1; }
cargo test --offline --lib "$@" >/tmp/vs_$$_suite.log 2>&1; s=$?
cargo test --offline --test demo "$@" >/tmp/vs_$$_mut.log 2>&1; m=$?
git checkout -q -- . ; rm -rf tests
echo "$M: demo_on_clean=$([ $c = 0 ] && echo pass || echo FAIL) suite_with_patch=$([ $s = 0 ] && echo pass || echo FAIL) ($(grep -m1 'test result' /tmp/vs_$$_suite.log | cut -c1-40)) demo_with_patch=$([ $m != 0 ] && echo fails-as-required || echo PASSES)"
rm -f /tmp/vs_$$_*.log
